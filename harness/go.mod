module verif/harness

go 1.25

require (
	github.com/anishathalye/porcupine v1.3.0
	github.com/ipfs/go-block-format v0.0.3
	github.com/ipfs/go-cid v0.3.2
	github.com/ipfs/go-ipld-format v0.4.0
	github.com/ipld/go-storethehash v0.0.0
	github.com/multiformats/go-multihash v0.2.1
	github.com/multiformats/go-varint v0.0.6
)

require (
	github.com/gogo/protobuf v1.3.2 // indirect
	github.com/google/uuid v1.1.1 // indirect
	github.com/hashicorp/golang-lru v0.5.4 // indirect
	github.com/ipfs/bbloom v0.0.4 // indirect
	github.com/ipfs/go-datastore v0.5.0 // indirect
	github.com/ipfs/go-ipfs-blockstore v1.2.0 // indirect
	github.com/ipfs/go-ipfs-ds-help v1.1.0 // indirect
	github.com/ipfs/go-ipfs-util v0.0.2 // indirect
	github.com/ipfs/go-log v0.0.1 // indirect
	github.com/ipfs/go-log/v2 v2.5.1 // indirect
	github.com/ipfs/go-metrics-interface v0.0.1 // indirect
	github.com/jbenet/goprocess v0.1.4 // indirect
	github.com/klauspost/cpuid/v2 v2.0.9 // indirect
	github.com/mattn/go-colorable v0.1.2 // indirect
	github.com/mattn/go-isatty v0.0.14 // indirect
	github.com/minio/sha256-simd v1.0.0 // indirect
	github.com/mr-tron/base58 v1.2.0 // indirect
	github.com/multiformats/go-base32 v0.0.3 // indirect
	github.com/multiformats/go-base36 v0.1.0 // indirect
	github.com/multiformats/go-multibase v0.0.3 // indirect
	github.com/opentracing/opentracing-go v1.1.0 // indirect
	github.com/spaolacci/murmur3 v1.1.0 // indirect
	github.com/whyrusleeping/go-logging v0.0.0-20170515211332-0457bb6b88fc // indirect
	go.uber.org/atomic v1.7.0 // indirect
	go.uber.org/multierr v1.6.0 // indirect
	go.uber.org/zap v1.19.1 // indirect
	golang.org/x/crypto v0.0.0-20220525230936-793ad666bf5e // indirect
	golang.org/x/sys v0.0.0-20210630005230-0f9fa26af87c // indirect
	lukechampine.com/blake3 v1.1.6 // indirect
)

replace github.com/ipld/go-storethehash => /repo
