package seq

import (
	"os"

	"github.com/ipld/go-storethehash/store/types"

	"verif/harness/internal/fsck"
)

// Freelist conservation (C13, sequential part). The runner flushes after every
// mutating call, decodes the on-disk layout at every quiescent point and
// compares the multiset of locations that stopped being current with the
// multiset of entries appended to the freelist in between.

type consState struct {
	installed     bool
	everCurrent   map[uint64]bool
	pendingBatch  []fsck.Block   // handed to GC, not yet consumed
	consumed      [][]fsck.Block // consumed by a finished hand-over, to verify at next quiescent point
	marked        map[uint64]int // location -> times GC set its deleted bit
	relocations   int64
	lastRelocSeen int64
	handedOver    []fsck.Block // every entry ever handed to GC and not yet seen dead
}

func (r *Runner) cs() *consState {
	if r.c == nil {
		r.c = &consState{everCurrent: map[uint64]bool{}, marked: map[uint64]int{}}
	}
	return r.c
}

func (r *Runner) installConservationHooks() {
	c := r.cs()
	if c.installed {
		return
	}
	c.installed = true
	r.RT.OnHook(func(name string, v any, hit int64) {
		switch name {
		case "fl.togc.before-rename":
			b, err := os.ReadFile(r.Env.IndexPath + ".free")
			if err != nil {
				return
			}
			ents, _ := parseFree(b)
			if r.freeSeen <= len(ents) {
				r.stream = append(r.stream, ents[r.freeSeen:]...)
			}
			r.freeSeen = 0
			c.pendingBatch = ents
			c.handedOver = append(c.handedOver, ents...)
			r.Res.Add("freelist_handovers", 1)
			r.Res.Add("freelist_entries_handed_over", int64(len(ents)))
		case "mh.gc.freelist.before-remove-gc":
			if c.pendingBatch != nil {
				c.consumed = append(c.consumed, c.pendingBatch)
				c.pendingBatch = nil
			}
		case "mh.gc.freelist.before-mark":
			if blk, ok := v.(types.Block); ok {
				c.marked[uint64(blk.Offset)]++
			}
		case "mh.gc.relocate.after-put":
			c.relocations++
		}
	})
}

func parseFree(b []byte) ([]fsck.Block, int) {
	var out []fsck.Block
	for len(b) >= 12 {
		var off uint64
		var sz uint32
		for i := 7; i >= 0; i-- {
			off = off<<8 | uint64(b[i])
		}
		for i := 11; i >= 8; i-- {
			sz = sz<<8 | uint32(b[i])
		}
		out = append(out, fsck.Block{Off: off, Size: sz})
		b = b[12:]
	}
	return out, len(b)
}

func (r *Runner) prevLayoutFromDisk() {}

func (r *Runner) conservation(l *fsck.Layout, res *fsck.Resolved) {
	c := r.cs()
	if r.S.VerifFreeList().OutstandingWork() != 0 {
		// entries still buffered: this is not a comparison point
		r.Res.Add("conservation_points_skipped_pool_nonempty", 1)
		return
	}
	// entries appended to the current .free file since the last point
	if len(l.Free) >= r.freeSeen {
		r.stream = append(r.stream, l.Free[r.freeSeen:]...)
		r.freeSeen = len(l.Free)
	} else {
		r.viol("freelist-shrunk", "freelist-shrunk", nil, "freelist file has %d entries, %d were already seen and no hand-over happened", len(l.Free), r.freeSeen)
		r.freeSeen = len(l.Free)
	}
	cur := res.Content
	curLoc := map[uint64]string{}
	for d, loc := range cur {
		curLoc[loc.Off] = d
	}
	if r.prevLayout != nil {
		superseded := map[fsck.Block]int{}
		causes := map[string]int64{}
		for d, old := range r.prevLayout {
			nw, ok := cur[d]
			if !ok {
				superseded[fsck.Block{Off: old.Off, Size: old.Size}]++
				causes["removed"]++
			} else if nw.Off != old.Off {
				superseded[fsck.Block{Off: old.Off, Size: old.Size}]++
				if string(nw.Value) == string(old.Value) {
					causes["relocated"]++
				} else {
					causes["overwritten"]++
				}
			}
		}
		for k, n := range causes {
			r.Res.Add("superseded_"+k, n)
		}
		relocated := c.relocations > c.lastRelocSeen
		c.lastRelocSeen = c.relocations
		for _, e := range r.stream {
			r.Res.Add("freelist_entries_observed", 1)
			if superseded[e] > 0 {
				superseded[e]--
				continue
			}
			if d, live := curLoc[e.Off]; live {
				r.viol("freelist-live", "freelist-live-location", nil, "freelist entry (%d,%d) names the current location of key %x", e.Off, e.Size, []byte(d))
				continue
			}
			if !c.everCurrent[e.Off] && relocated {
				r.Res.Add("freelist_entries_discarded_relocation", 1)
				continue
			}
			r.viol("freelist-extra", "freelist-extra-entry", nil, "freelist entry (%d,%d) does not correspond to a location that stopped being current (duplicate or spurious)", e.Off, e.Size)
		}
		for b, n := range superseded {
			if n > 0 {
				r.viol("freelist-missing", "freelist-missing-entry", nil, "location (%d,%d) stopped being current but was not recorded on the freelist (%d missing)", b.Off, b.Size, n)
			}
		}
		r.Res.Add("conservation_points", 1)
	}
	r.stream = r.stream[:0]
	for _, loc := range cur {
		c.everCurrent[loc.Off] = true
	}
	r.prevLayout = cur
	// batches consumed by GC: every location must now be dead, exactly one mark each
	for _, batch := range c.consumed {
		for _, e := range batch {
			pr, _, _ := l.PrimRecAt(e.Off)
			if pr != nil && !pr.Deleted && pr.Complete {
				// merged spans hide record starts; a live-looking record exactly here is a miss
				if _, live := curLoc[e.Off]; !live {
					r.viol("freelist-not-applied", "freelist-not-applied", nil, "GC consumed a batch containing (%d,%d) but the record is neither marked deleted nor truncated away", e.Off, e.Size)
				}
			}
			r.Res.Add("batch_entries_verified", 1)
		}
	}
	c.consumed = nil
	// Exactly-once presentation, independent of hook placement: once no hand-over file exists any
	// more, every entry that was ever handed over must have been applied (record dead). A batch that
	// vanished unapplied (e.g. removed when a cycle was interrupted) is a lost entry.
	if !l.HasGC {
		var still []fsck.Block
		for _, e := range c.handedOver {
			pr, _, _ := l.PrimRecAt(e.Off)
			if pr != nil && !pr.Deleted && pr.Complete && pr.Size == e.Size {
				if _, live := curLoc[e.Off]; !live {
					r.viol("freelist-handover-lost", "freelist-handover-lost", nil, "entry (%d,%d) was handed over to GC, the hand-over file is gone, but the record is neither marked deleted nor truncated away: the location will never be presented again", e.Off, e.Size)
					continue
				}
			}
		}
		c.handedOver = still
	}
	for off, n := range c.marked {
		if n > 1 {
			r.viol("freelist-double-mark", "freelist-double-mark", nil, "GC set the deleted bit of location %d %d times", off, n)
		}
		if d, live := curLoc[off]; live {
			r.viol("freelist-live-marked", "freelist-live-marked", nil, "GC marked the current location %d of key %x deleted", off, []byte(d))
		}
	}
}
