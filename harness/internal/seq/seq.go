// Package seq executes sequential histories against the real store in
// lock-step with the reference map and evaluates the per-call oracle (C01),
// the reopen oracle (C02), the GC-invisibility oracle (C04), the fsck
// invariant (C07) and freelist conservation (C13) at the points their
// properties name.
package seq

import (
	"bytes"
	"context"
	"errors"
	"fmt"
	"io"
	"math/rand/v2"
	"os"
	"sync/atomic"
	"time"

	"github.com/ipld/go-storethehash/store"
	"github.com/ipld/go-storethehash/store/types"

	"verif/harness/internal/core"
	"verif/harness/internal/fsck"
	"verif/harness/internal/gen"
	"verif/harness/internal/hookrt"
	"verif/harness/internal/model"
)

type Op struct {
	Kind string `json:"op"`
	K    int    `json:"k"`
	VID  uint64 `json:"vid,omitempty"`
	VLen int    `json:"vlen,omitempty"`
	Nil  bool   `json:"nil,omitempty"`
	A    int    `json:"a,omitempty"`
	B    int    `json:"b,omitempty"`
}

func (o Op) String() string {
	switch o.Kind {
	case "put":
		return fmt.Sprintf("put(k%d,v%d/len%d)", o.K, o.VID, o.VLen)
	case "get", "has", "size", "rm":
		return fmt.Sprintf("%s(k%d)", o.Kind, o.K)
	case "gcp":
		return fmt.Sprintf("gcp(lowuse=%d,limit=%d)", o.A, o.B)
	case "gci":
		return fmt.Sprintf("gci(scanfree=%d,limit=%d)", o.A, o.B)
	case "reopen":
		return fmt.Sprintf("reopen(mode=%d,dbl=%d)", o.A, o.B)
	case "rebits":
		return fmt.Sprintf("rebits(%d)", o.A)
	}
	return o.Kind
}

// Profile selects which operations a generated history may contain.
type Profile struct {
	N             int
	Keys          int
	GC            bool // primary + index GC cycles
	FlushBeforeGC bool // avoid-class: always flush right before a GC cycle
	GCLimit       bool // time-limited cycles
	Reopen        bool
	Iter          bool
	FlushEvery    bool // flush after every mutating call
	FlushNever    bool
	NoHuge        bool
	RemoveHeavy   bool
	NoPrimLimit   bool // never stop a primary GC cycle midway (avoid-class of finding C04-F1)
}

var lowUse = []int{1, 25, 50, 74, 85, 100}

// GenOps draws a history.
func GenOps(r *rand.Rand, p Profile) []Op {
	var ops []Op
	var vid uint64 = 1
	flushW := 6
	if p.FlushNever {
		flushW = 0
	}
	for len(ops) < p.N {
		x := r.IntN(100)
		k := r.IntN(p.Keys)
		// bias towards a hot subset so that overwrites and removals of present keys are common
		if r.IntN(3) != 0 {
			k = r.IntN((p.Keys + 2) / 3)
		}
		mut := false
		switch {
		case x < 34:
			vl := gen.ValueLen(r, !p.NoHuge && r.IntN(40) == 0)
			o := Op{Kind: "put", K: k, VID: vid, VLen: vl, Nil: vl == 0 && r.IntN(2) == 0}
			vid++
			if r.IntN(12) == 0 && len(ops) > 0 {
				// exact re-put of an earlier put
				for j := len(ops) - 1; j >= 0; j-- {
					if ops[j].Kind == "put" {
						o = ops[j]
						break
					}
				}
			}
			ops = append(ops, o)
			mut = true
		case x < 52:
			ops = append(ops, Op{Kind: "get", K: k})
		case x < 58:
			ops = append(ops, Op{Kind: "has", K: k})
		case x < 64:
			ops = append(ops, Op{Kind: "size", K: k})
		case x < 76 || (p.RemoveHeavy && x < 84):
			ops = append(ops, Op{Kind: "rm", K: k})
			mut = true
		case x < 76+flushW+8:
			if !p.FlushNever {
				ops = append(ops, Op{Kind: "flush"})
			}
		case x < 92:
			if p.Iter && r.IntN(3) == 0 {
				ops = append(ops, Op{Kind: "iter"})
			} else {
				ops = append(ops, Op{Kind: "get", K: r.IntN(p.Keys)})
			}
		case x < 97:
			if p.GC {
				if p.FlushBeforeGC {
					ops = append(ops, Op{Kind: "flush"})
				}
				lim := 0
				if p.GCLimit && r.IntN(4) == 0 {
					lim = 1 + r.IntN(12)
				}
				if r.IntN(2) == 0 {
					if p.NoPrimLimit {
						lim = 0
					}
					ops = append(ops, Op{Kind: "gcp", A: lowUse[r.IntN(len(lowUse))], B: lim})
				} else {
					ops = append(ops, Op{Kind: "gci", A: r.IntN(2), B: lim})
				}
			} else {
				ops = append(ops, Op{Kind: "has", K: r.IntN(p.Keys)})
			}
		default:
			if p.Reopen {
				ops = append(ops, Op{Kind: "reopen", A: r.IntN(3), B: r.IntN(4)})
			} else {
				ops = append(ops, Op{Kind: "size", K: r.IntN(p.Keys)})
			}
		}
		if mut && p.FlushEvery {
			ops = append(ops, Op{Kind: "flush"})
		}
	}
	return ops
}

// LimitCtx is a context whose deadline "expires" when Trip is called.
type LimitCtx struct {
	tripped atomic.Bool
	done    chan struct{}
}

func NewLimitCtx() *LimitCtx { return &LimitCtx{done: make(chan struct{})} }
func (c *LimitCtx) Trip() {
	if c.tripped.CompareAndSwap(false, true) {
		close(c.done)
	}
}
func (c *LimitCtx) Deadline() (time.Time, bool) { return time.Time{}, false }
func (c *LimitCtx) Done() <-chan struct{}       { return c.done }
func (c *LimitCtx) Err() error {
	if c.tripped.Load() {
		return context.DeadlineExceeded
	}
	return nil
}
func (c *LimitCtx) Value(any) any { return nil }

// Opts selects oracles.
type Opts struct {
	FsckAtFlush  bool // C07 at every completed Flush
	ProbeAfterGC bool // C04: full probe after every GC cycle
	TripleReopen bool // C02: snapshot / no snapshot / unusable snapshot
	Conservation bool // C13 (needs FlushEvery histories)
	FinalReopen  bool
	OnlyFsck     bool // C07 mode: report only fsck problems
	Extra        []store.Option
	AfterOp      func(r *Runner, i int, op Op)
	BeforeReopen func(r *Runner)
	AfterClose   func(r *Runner) // between Close and the following Open of a reopen
	AfterFlush   func(r *Runner) // after a successful Flush (also the one inside NewIterator)
}

type Runner struct {
	Env  *core.Env
	U    gen.Universe
	S    *store.Store
	M    *model.Map
	RT   *hookrt.RT
	Res  *core.CaseResult
	Opt  Opts
	Step int
	Rng  *rand.Rand

	prevLayout       map[string]fsck.Loc
	freeSeen         int          // entries of the current .free file already accounted
	stream           []fsck.Block // entries appended since the last quiescent point
	batches          [][]fsck.Block
	discarded        []fsck.Block
	dead             bool
	c                *consState
	dirty            map[int]bool
	LastGCErr        error
	unmarkedPossible bool
	TrigF1           bool // a relocating primary GC cycle ran while superseded records could still be unmarked
	hist             map[string]map[string]bool
}

func NewRunner(env *core.Env, u gen.Universe, rt *hookrt.RT, res *core.CaseResult, opt Opts) *Runner {
	return &Runner{Env: env, U: u, M: model.New(env.Cfg.Immutable), RT: rt, Res: res, Opt: opt}
}

func (r *Runner) viol(kind, sig string, detail any, f string, a ...any) {
	if r.Opt.OnlyFsck && kind != "fsck" {
		r.Res.Add("non_fsck_mismatch_ignored", 1)
		return
	}
	r.Res.Violate(kind, sig, r.Step, detail, f, a...)
}

func (r *Runner) Open() bool {
	var err error
	p := core.Protect(func() { r.S, err = r.Env.Open(r.Opt.Extra...) })
	if p != nil {
		r.viol("panic", "panic-open", nil, "OpenStore panicked: %v", p)
		r.dead = true
		return false
	}
	if err != nil {
		r.viol("open-error", "open-error", nil, "OpenStore failed: %v", err)
		r.dead = true
		return false
	}
	if r.Opt.Conservation {
		r.installConservationHooks()
	}
	return true
}

func eqVal(a, b []byte) bool { return bytes.Equal(a, b) }

func (r *Runner) remember(d, v []byte) {
	if r.hist == nil {
		r.hist = map[string]map[string]bool{}
	}
	m := r.hist[string(d)]
	if m == nil {
		m = map[string]bool{}
		r.hist[string(d)] = m
	}
	m[string(v)] = true
}

// classify names the symptom class of a content mismatch: the narrow
// signatures known findings are matched against.
func (r *Runner) classify(d []byte, found bool, got []byte, want []byte, ok bool) string {
	cls := "wrong-value"
	switch {
	case found && !ok:
		cls = "absent-key-found"
		if r.hist[string(d)][string(got)] {
			cls = "removed-key-resurrected-with-own-old-value"
		}
	case !found && ok:
		cls = "present-key-lost"
	case found && ok:
		if r.hist[string(d)][string(got)] {
			cls = "own-older-value"
		}
	}
	if r.TrigF1 {
		cls += "+after-unmarked-relocation"
	}
	return cls
}

func short(b []byte) string {
	if len(b) > 24 {
		return fmt.Sprintf("%x..(%d bytes)", b[:24], len(b))
	}
	return fmt.Sprintf("%x", b)
}

// Digest of a raw key as stored (multihash or CID).
func DigestOfRaw(primary string, raw []byte) ([]byte, error) {
	if primary == gen.CID {
		d, _, err := fsck.ParseCID(raw)
		return d, err
	}
	d, _, err := fsck.ParseMultihash(raw)
	return d, err
}

func (r *Runner) val(o Op) []byte {
	if o.VLen == 0 {
		if o.Nil {
			return nil
		}
		return []byte{}
	}
	return gen.Value(o.VID, o.VLen)
}

func fresh(b []byte) []byte {
	if b == nil {
		return nil
	}
	return append([]byte{}, b...)
}

// Exec runs one operation and compares with the model.
func (r *Runner) Exec(i int, o Op) {
	r.Step = i
	if r.dead {
		return
	}
	k := r.U.Keys[o.K%len(r.U.Keys)]
	p := core.Protect(func() {
		switch o.Kind {
		case "put":
			v := r.val(o)
			_, had := r.M.Get(k.Digest)
			wantExists := r.M.Put(k.Digest, v)
			r.remember(k.Digest, v)
			err := r.S.Put(fresh(k.Raw), fresh(v))
			r.Res.Add("op_put", 1)
			if r.dirty == nil {
				r.dirty = map[int]bool{}
			}
			r.dirty[o.K%len(r.U.Keys)] = true
			if len(v) == 0 {
				r.Res.Add("put_empty", 1)
				if !wantExists {
					r.Res.Flag("empty-value")
				}
			}
			if had && !wantExists {
				r.Res.Flag("overwrite")
			}
			if wantExists {
				r.Res.Add("put_keyexists_expected", 1)
				if !errors.Is(err, types.ErrKeyExists) {
					r.viol("put-immutable", "put-immutable-not-rejected", nil, "Put of existing key %x in immutable mode returned %v, want key-exists", k.Digest, err)
				}
			} else if err != nil {
				r.viol("put-error", "put-error", nil, "Put(%x, %s) failed: %v", k.Digest, short(v), err)
			}
		case "get":
			want, ok := r.M.Get(k.Digest)
			got, found, err := r.S.Get(fresh(k.Raw))
			r.Res.Add("op_get", 1)
			if ok && r.dirty[o.K%len(r.U.Keys)] {
				r.Res.Flag("unflushed-read")
			}
			if err != nil {
				r.viol("get-error", "get-error", nil, "Get(%x) failed: %v", k.Digest, err)
			} else if found != ok {
				r.viol("get-found", r.classify(k.Digest, found, got, want, ok), nil, "Get(%x) found=%v, model says %v (model value %s)", k.Digest, found, ok, short(want))
			} else if ok && !eqVal(got, want) {
				r.viol("get-value", r.classify(k.Digest, found, got, want, ok), nil, "Get(%x) = %s, model has %s", k.Digest, short(got), short(want))
			}
		case "has":
			_, ok := r.M.Get(k.Digest)
			has, err := r.S.Has(fresh(k.Raw))
			r.Res.Add("op_has", 1)
			if err != nil {
				r.viol("has-error", "has-error", nil, "Has(%x) failed: %v", k.Digest, err)
			} else if has != ok {
				r.viol("has-mismatch", "has-mismatch", nil, "Has(%x) = %v, model says %v", k.Digest, has, ok)
			}
		case "size":
			want, ok := r.M.Get(k.Digest)
			sz, found, err := r.S.GetSize(fresh(k.Raw))
			r.Res.Add("op_getsize", 1)
			if err != nil {
				r.viol("getsize-error", "getsize-error", nil, "GetSize(%x) failed: %v", k.Digest, err)
			} else if found != ok {
				r.viol("getsize-found", "getsize-found", nil, "GetSize(%x) found=%v, model says %v", k.Digest, found, ok)
			} else if ok && int(sz) != len(want) {
				r.viol("getsize-value", "getsize-value", nil, "GetSize(%x) = %d, model value has %d bytes", k.Digest, sz, len(want))
			}
		case "rm":
			want := r.M.Remove(k.Digest)
			got, err := r.S.Remove(fresh(k.Raw))
			r.Res.Add("op_remove", 1)
			if want {
				r.Res.Flag("remove-present")
			}
			if err != nil {
				r.viol("remove-error", "remove-error", nil, "Remove(%x) failed: %v", k.Digest, err)
			} else if got != want {
				r.viol("remove-mismatch", "remove-mismatch", nil, "Remove(%x) = %v, model says %v", k.Digest, got, want)
			}
		case "flush":
			err := r.S.Flush()
			r.dirty = nil
			r.Res.Add("op_flush", 1)
			if err != nil {
				r.viol("flush-error", "flush-error", nil, "Flush failed: %v", err)
			} else if r.Opt.AfterFlush != nil {
				r.Opt.AfterFlush(r)
			}
			r.quiescent("flush")
		case "iter":
			r.iterate()
		case "gcp":
			r.gcPrimary(o)
		case "gci":
			r.gcIndex(o)
		case "reopen":
			r.reopen(o)
		case "rebits":
			r.rebits(o)
		case "mismatch":
			r.mismatch(o)
		}
	})
	if p != nil {
		r.viol("panic", "panic-"+o.Kind, nil, "%s panicked: %v", o, p)
		r.dead = true
	}
	if r.Opt.AfterOp != nil && !r.dead {
		r.Opt.AfterOp(r, i, o)
	}
}

func (r *Runner) iterate() {
	it := r.S.NewIterator()
	r.Res.Add("op_iter", 1)

	seen := map[string][]byte{}
	for {
		k, v, err := it.Next()
		if err == io.EOF {
			break
		}
		if err != nil {
			r.viol("iter-error", "iter-error", nil, "iterator failed: %v", err)
			return
		}
		d, derr := DigestOfRaw(r.Env.Cfg.Primary, k)
		if derr != nil {
			r.viol("iter-key", "iter-key", nil, "iterator returned undecodable key %x", k)
			continue
		}
		if _, dup := seen[string(d)]; dup {
			r.viol("iter-duplicate", "iter-duplicate", nil, "iterator returned digest %x twice", d)
		}
		seen[string(d)] = append([]byte{}, v...)
	}
	for d, v := range r.M.M {
		g, ok := seen[d]
		if !ok {
			r.viol("iter-missing", "iter-missing", nil, "iterator missed present key %x", d)
		} else if !eqVal(g, v) {
			r.viol("iter-value", "iter-value", nil, "iterator value for %x = %s, model has %s", d, short(g), short(v))
		}
	}
	for d := range seen {
		if _, ok := r.M.M[d]; !ok {
			r.viol("iter-extra", "iter-extra", nil, "iterator returned absent key %x", d)
		}
	}
}

// Probe compares Get/Has/GetSize of every universe key with the model.
func (r *Runner) Probe(why string) {
	for _, k := range r.U.Keys {
		want, ok := r.M.Get(k.Digest)
		got, found, err := r.S.Get(fresh(k.Raw))
		r.Res.Add("probe_get", 1)
		if err != nil {
			r.viol("get-error", "get-error@"+why, nil, "[%s] Get(%x) failed: %v", why, k.Digest, err)
			continue
		}
		if found != ok {
			r.viol("get-found", r.classify(k.Digest, found, got, want, ok), nil, "[%s] Get(%x) found=%v, model says %v", why, k.Digest, found, ok)
			continue
		}
		if ok && !eqVal(got, want) {
			r.viol("get-value", r.classify(k.Digest, found, got, want, ok), nil, "[%s] Get(%x) = %s, model has %s", why, k.Digest, short(got), short(want))
			continue
		}
		has, err := r.S.Has(fresh(k.Raw))
		if err != nil || has != ok {
			r.viol("has-mismatch", "has-mismatch@"+why, nil, "[%s] Has(%x) = %v,%v, model says %v", why, k.Digest, has, err, ok)
		}
		sz, sfound, err := r.S.GetSize(fresh(k.Raw))
		if err != nil || sfound != ok || (ok && int(sz) != len(want)) {
			r.viol("getsize-mismatch", "getsize-mismatch@"+why, nil, "[%s] GetSize(%x) = %d,%v,%v, model says %v/%d", why, k.Digest, sz, sfound, err, ok, len(want))
		}
	}
}

func (r *Runner) limitCtx(n int, prefix string) (context.Context, func()) {
	if n <= 0 {
		return context.Background(), func() {}
	}
	lc := NewLimitCtx()
	var hits atomic.Int64
	active := atomic.Bool{}
	active.Store(true)
	r.RT.OnHook(func(name string, v any, hit int64) {
		if !active.Load() || len(name) < len(prefix) || name[:len(prefix)] != prefix {
			return
		}
		if hits.Add(1) == int64(n) {
			lc.Trip()
		}
	})
	return lc, func() { active.Store(false) }
}

func (r *Runner) gcPrimary(o Op) {
	mp := core.MH(r.S)
	if mp == nil {
		return
	}
	prefix, n := "mh.gc.", o.B
	if o.B >= 2000 {
		// budget expires while the n-th freelist entry of the cycle's batch is applied
		prefix, n = "mh.gc.freelist.before-mark", o.B-2000
	} else if o.B >= 1000 {
		// budget expires while the n-th file of the cycle is being scanned
		prefix, n = "mh.gc.file.start", o.B-1000
	}
	ctx, stop := r.limitCtx(n, prefix)
	defer stop()
	before := r.RT.Counts()
	// structural trigger of finding C04-F1: superseded records may still be unmarked
	// when files are reaped (pools not flushed, or a left-over .gc batch hides newer entries)
	unmarkedPossible := r.S.Index().OutstandingWork()+mp.OutstandingWork()+r.S.VerifFreeList().OutstandingWork() > 0
	if _, e := os.Stat(r.Env.IndexPath + ".free.gc"); e == nil {
		unmarkedPossible = true
	}
	if unmarkedPossible {
		r.unmarkedPossible = true // sticky: a dropped or delayed freelist entry leaves a stale record that looks live
	}
	_, err := mp.GC(ctx, int64(o.A))
	if r.unmarkedPossible && r.RT.Count("mh.gc.relocate.after-put") > before["mh.gc.relocate.after-put"] {
		r.TrigF1 = true
		r.Res.Add("trigger_F1_cycles", 1)
	}
	r.Res.Add("gc_primary_cycles", 1)
	if err != nil {
		if o.B > 0 && errors.Is(err, context.DeadlineExceeded) {
			r.Res.Add("gc_primary_stopped_midway", 1)
		} else {
			// a failing cycle is logged and retried by the collector; it is only a
			// violation if the store's contents change, which the probes decide
			r.Res.Add("gc_primary_cycle_errors", 1)
			r.LastGCErr = err
		}
	}
	r.gcStats(before)
	if r.Opt.ProbeAfterGC {
		r.Probe("after-gcp")
	}
}

func (r *Runner) gcStats(before map[string]int64) {
	after := r.RT.Counts()
	d := func(n string) int64 { return after[n] - before[n] }
	if n := d("mh.gc.relocate.after-put"); n > 0 {
		r.Res.Add("gc_relocated_records", n)
		r.Res.Flag("gc-relocated")
		if n >= 2 {
			r.Res.Flag("gc-relocated-2")
		}
	}
	if n := d("mh.gc.freelist.before-mark"); n > 0 {
		r.Res.Add("gc_freelist_marks", n)
		r.Res.Flag("gc-freelist-applied")
	}
	if n := d("mh.gc.reap.before-truncate"); n > 0 {
		r.Res.Add("gc_primary_truncates", n)
		r.Res.Flag("gc-primary-truncated")
	}
	if n := d("mh.gc.before-remove"); n > 0 {
		r.Res.Add("gc_primary_unlinks", n)
		r.Res.Flag("gc-primary-unlinked")
	}
	if n := d("mh.gc.reap.before-merge"); n > 0 {
		r.Res.Add("gc_primary_merges", n)
	}
	if n := d("index.gc.reap.before-mark"); n > 0 {
		r.Res.Add("gc_index_marks", n)
		r.Res.Flag("gc-index-marked")
	}
	if n := d("index.gc.reap.before-merge"); n > 0 {
		r.Res.Add("gc_index_merges", n)
	}
	if n := d("index.gc.reap.before-truncate"); n > 0 {
		r.Res.Add("gc_index_truncates", n)
		r.Res.Flag("gc-index-truncated")
	}
	if n := d("index.gc.before-remove") + d("index.gc.free.before-remove"); n > 0 {
		r.Res.Add("gc_index_unlinks", n)
		r.Res.Flag("gc-index-unlinked")
	}
	if n := d("index.gc.free.before-truncate"); n > 0 {
		r.Res.Add("gc_index_emptied", n)
	}
}

func (r *Runner) gcIndex(o Op) {
	ctx, stop := r.limitCtx(o.B, "index.gc.")
	defer stop()
	before := r.RT.Counts()
	_, _, err := r.S.Index().VerifGC(ctx, o.A == 1)
	r.Res.Add("gc_index_cycles", 1)
	if err != nil {
		if o.B > 0 && errors.Is(err, context.DeadlineExceeded) {
			r.Res.Add("gc_index_stopped_midway", 1)
		} else {
			r.Res.Add("gc_index_cycle_errors", 1)
			r.LastGCErr = err
		}
	}
	r.gcStats(before)
	if r.Opt.ProbeAfterGC {
		r.Probe("after-gci")
	}
}

// quiescent evaluates C07 (and C13) right after a completed Flush.
func (r *Runner) quiescent(origin string) {
	if !r.Opt.FsckAtFlush && !r.Opt.Conservation {
		return
	}
	l, err := r.Env.Fsck()
	if err != nil {
		r.viol("fsck", "fsck-load", nil, "fsck could not read the store files: %v", err)
		return
	}
	raw := r.S.Index().VerifBuckets()
	b := make([]uint64, len(raw))
	for i, p := range raw {
		b[i] = uint64(p)
	}
	ps, res := l.Check(b)
	r.Res.Add("fsck_states_"+origin, 1)
	r.Res.Add("fsck_entries_walked", int64(len(res.Content)))
	if r.Opt.FsckAtFlush {
		for _, p := range ps {
			r.viol("fsck", "fsck-"+p.Clause, nil, "[%s] %s", origin, p)
		}
		// the decoded content must be the model's content
		r.compareContent(res, origin)
		// the files alone (no saved table while the store is open) must determine the same state:
		// the table a rescan of the log would build resolves to the same record lists
		_, rres := l.Check(l.ReplayBuckets())
		if ok, why := fsck.ListsEqual(res, rres); !ok {
			r.viol("fsck", "fsck-log-replay-differs", nil, "[%s] the index log no longer determines the live bucket table (a rescan would rebuild a different state): %s", origin, why)
		}
		r.Res.Add("fsck_log_replays_compared", 1)
	}
	if r.Opt.Conservation {
		r.conservation(l, res)
	}
}

func (r *Runner) compareContent(res *fsck.Resolved, origin string) {
	if r.Opt.OnlyFsck {
		return
	}
	for d, v := range r.M.M {
		g, ok := res.Content[d]
		if !ok {
			r.viol("disk-content", "disk-missing", nil, "[%s] on-disk layout has no entry for present key %x", origin, d)
		} else if !eqVal(g.Value, v) {
			r.viol("disk-content", "disk-value", nil, "[%s] on-disk value for %x is %s, model has %s", origin, d, short(g.Value), short(v))
		}
	}
	for d := range res.Content {
		if _, ok := r.M.M[d]; !ok {
			r.viol("disk-content", "disk-extra", nil, "[%s] on-disk layout still resolves removed/absent key %x", origin, []byte(d))
		}
	}
}

func copyDir(src, dst string) error {
	img, err := core.Snapshot(src)
	if err != nil {
		return err
	}
	return img.Materialize(dst)
}

// reopen closes the store and reopens it; with TripleReopen the closed
// directory is recovered through all three paths and compared.
func (r *Runner) reopen(o Op) {
	if r.Opt.BeforeReopen != nil {
		r.Opt.BeforeReopen(r)
	}
	err := r.S.Close()
	r.Res.Add("op_close", 1)
	if err != nil {
		r.viol("close-error", "close-error", nil, "Close failed: %v", err)
	}
	if o.B == 0 {
		before, _ := core.Snapshot(r.Env.Root)
		if err := r.S.Close(); err != nil {
			r.viol("close-error", "close2-error", nil, "second Close failed: %v", err)
		}
		after, _ := core.Snapshot(r.Env.Root)
		if before.Hash() != after.Hash() {
			r.viol("close-twice", "close2-changed", nil, "second Close changed the directory")
		}
		r.Res.Add("double_close", 1)
	}
	r.S = nil
	if r.Opt.FsckAtFlush || r.Opt.TripleReopen {
		l, err := r.Env.Fsck()
		if err != nil {
			r.viol("fsck", "fsck-load", nil, "fsck after Close: %v", err)
		} else {
			var b []uint64
			if l.Snapshot != nil && len(l.Snapshot) == l.NumBuckets() {
				b = l.Snapshot
			} else {
				b = l.ReplayBuckets()
				r.viol("close-snapshot", "close-no-snapshot", nil, "no usable bucket snapshot after a clean Close (len %d)", l.SnapshotLen)
			}
			ps, res := l.Check(b)
			r.Res.Add("fsck_states_close", 1)
			for _, p := range ps {
				r.viol("fsck", "fsck-"+p.Clause, nil, "[close] %s", p)
			}
			r.compareContent(res, "close")
		}
	}
	if r.Opt.AfterClose != nil {
		r.Opt.AfterClose(r)
	}
	mode := o.A
	if r.Opt.TripleReopen {
		r.tripleCompare()
	}
	switch mode {
	case 1:
		os.Remove(r.Env.IndexPath + ".buckets")
		r.Res.Add("reopen_without_snapshot", 1)
	case 2:
		// unusable snapshot: cut one bucket off
		if b, err := os.ReadFile(r.Env.IndexPath + ".buckets"); err == nil && len(b) >= 8 {
			os.WriteFile(r.Env.IndexPath+".buckets", b[:len(b)-8], 0o644)
			r.Res.Add("reopen_unusable_snapshot", 1)
		}
	default:
		r.Res.Add("reopen_with_snapshot", 1)
	}
	if !r.Open() {
		return
	}
	r.Res.Flag("reopened")
	r.Probe("after-reopen")
	if r.Opt.Conservation {
		// the freelist file survives restarts; entries are still to be presented
		r.prevLayoutFromDisk()
	}
}

// tripleCompare opens copies of the closed directory through the snapshot
// path, the rescan path (no snapshot) and the rescan path (unusable snapshot)
// and requires equal contents and equal resolved bucket tables.
func (r *Runner) tripleCompare() {
	type out struct {
		res  *fsck.Resolved
		name string
	}
	var outs []out
	for mode, name := range []string{"snapshot", "no-snapshot", "bad-snapshot"} {
		dir, err := os.MkdirTemp(core.Scratch(), "vchk-tri-")
		if err != nil {
			return
		}
		func() {
			defer os.RemoveAll(dir)
			if err := copyDir(r.Env.Root, dir); err != nil {
				return
			}
			env, _ := core.EnvAt(dir, r.Env.Cfg)
			switch mode {
			case 1:
				os.Remove(env.IndexPath + ".buckets")
			case 2:
				if b, err := os.ReadFile(env.IndexPath + ".buckets"); err == nil {
					os.WriteFile(env.IndexPath+".buckets", append(b, 0, 0, 0, 0, 0, 0, 0, 0), 0o644)
				}
			}
			s, err := env.Open(r.Opt.Extra...)
			if err != nil {
				r.viol("reopen-error", "reopen-error-"+name, nil, "reopen via %s path failed: %v", name, err)
				return
			}
			defer s.Close()
			sub := &Runner{Env: env, U: r.U, S: s, M: r.M, RT: r.RT, Res: r.Res, Opt: Opts{OnlyFsck: r.Opt.OnlyFsck}, Step: r.Step}
			sub.Probe("reopen-" + name)
			sub.iterate()
			l, err := env.Fsck()
			if err != nil {
				return
			}
			raw := s.Index().VerifBuckets()
			b := make([]uint64, len(raw))
			for i, p := range raw {
				b[i] = uint64(p)
			}
			_, res := l.Check(b)
			outs = append(outs, out{res, name})
			r.Res.Add("reopen_paths_compared", 1)
			r.Res.Add("buckets_compared", int64(len(b)))
		}()
	}
	for i := 1; i < len(outs); i++ {
		if ok, why := fsck.ListsEqual(outs[0].res, outs[i].res); !ok {
			r.viol("reopen-paths-differ", "reopen-paths-differ", nil, "recovery via %s and via %s resolve differently: %s", outs[0].name, outs[i].name, why)
		}
	}
	r.Res.Add("reopen_triples", 1)
}

// Finish closes the store (if open) and cleans up.
func (r *Runner) Finish() {
	if r.S != nil {
		core.Protect(func() { r.S.Close() })
		r.S = nil
	}
}

// RunHistory is the common driver: open, run ops, final probe, final flush + fsck.
func (r *Runner) RunHistory(ops []Op) {
	if !r.Open() {
		return
	}
	for i, o := range ops {
		r.Exec(i, o)
		if r.dead {
			break
		}
	}
	if r.dead {
		r.Finish()
		return
	}
	r.Step = len(ops)
	p := core.Protect(func() {
		r.Probe("final")
		if err := r.S.Flush(); err != nil {
			r.viol("flush-error", "flush-error", nil, "final Flush failed: %v", err)
		}
		r.quiescent("final")
		r.Probe("final-flushed")
		if r.Opt.FinalReopen {
			r.reopen(Op{Kind: "reopen", A: r.Step % 3, B: 1})
		}
	})
	if p != nil {
		r.viol("panic", "panic-final", nil, "final probe panicked: %v", p)
	}
	r.Finish()
}

// ObserveFlags derives non-triviality flags from what the run observed.
func (r *Runner) ObserveFlags(ops []Op) {
	c := r.RT.Counts()
	if c["index.flushbucket.rolled"] > 0 {
		r.Res.Flag("index-rollover")
		r.Res.Add("index_rollovers", c["index.flushbucket.rolled"])
	}
	if c["mh.flushblock.rolled"] > 0 {
		r.Res.Flag("primary-rollover")
		r.Res.Add("primary_rollovers", c["mh.flushblock.rolled"])
	}
	// bucket sharing among keys that were put
	seen := map[uint32]int{}
	put := map[int]bool{}
	for _, o := range ops {
		if o.Kind == "put" {
			put[o.K%len(r.U.Keys)] = true
		}
	}
	for k := range put {
		seen[gen.Bucket(r.U.Keys[k].Digest, r.Env.Cfg.Bits)]++
	}
	for _, n := range seen {
		if n >= 2 {
			r.Res.Flag("shared-bucket")
			break
		}
	}
}

// rebits closes the store and reopens it with another index bit size.
func (r *Runner) rebits(o Op) {
	if err := r.S.Close(); err != nil {
		r.viol("close-error", "close-error", nil, "Close failed: %v", err)
	}
	r.S = nil
	if r.Opt.AfterClose != nil {
		r.Opt.AfterClose(r)
	}
	old := r.Env.Cfg.Bits
	r.Env.Cfg.Bits = uint8(o.A)
	r.Res.Add("rebucket_reopens", 1)
	r.Res.Add(fmt.Sprintf("rebucket_%d_to_%d", old, o.A), 1)
	if !r.Open() {
		return
	}
	r.Res.Flag("rebucketed")
	r.Probe("after-rebucket")
	r.iterate()
}

// mismatch closes the store, tries to open it with another index (A=0) or
// primary (A=1) file size limit, which must be refused with the specific
// error, and reopens it with the original settings.
func (r *Runner) mismatch(o Op) {
	if err := r.S.Close(); err != nil {
		r.viol("close-error", "close-error", nil, "Close failed: %v", err)
	}
	r.S = nil
	cfg := r.Env.Cfg
	var want string
	if o.A%2 == 0 {
		cfg.IndexFileSize = cfg.IndexFileSize/2 + 7
		want = "index"
	} else {
		cfg.PrimaryFileSize = cfg.PrimaryFileSize/2 + 7
		want = "primary"
	}
	if o.A >= 2 {
		// the same open also asks for another index bit size: the file-size mismatch must still be refused
		if cfg.Bits < 24 {
			cfg.Bits++
		} else {
			cfg.Bits--
		}
		r.Res.Add("mismatch_opens_combined_with_bit_size_change", 1)
	}
	s, err := r.Env.OpenCfg(cfg, r.Opt.Extra...)
	r.Res.Add("mismatch_opens_"+want, 1)
	if err == nil {
		s.Close()
		r.viol("mismatch-accepted", "mismatch-accepted-"+want, nil, "OpenStore with a different %s file size limit succeeded", want)
	} else {
		var ie types.ErrIndexWrongFileSize
		var pe types.ErrPrimaryWrongFileSize
		if want == "index" && !errors.As(err, &ie) {
			r.viol("mismatch-error-type", "mismatch-error-type-index", nil, "OpenStore with a different index file size failed with %T %v, want ErrIndexWrongFileSize", err, err)
		}
		if want == "primary" && !errors.As(err, &pe) {
			r.viol("mismatch-error-type", "mismatch-error-type-primary", nil, "OpenStore with a different primary file size failed with %T %v, want ErrPrimaryWrongFileSize", err, err)
		}
	}
	if !r.Open() {
		return
	}
	r.Res.Flag("mismatch-refused")
	r.Probe("after-mismatch")
}
