// Package gen generates hostile keys, values, configurations and histories.
// Everything is a pure function of the PRNG handed in.
package gen

import (
	"bytes"
	"encoding/binary"
	"fmt"
	"math/rand/v2"
	"sort"

	"github.com/ipfs/go-cid"
	"github.com/multiformats/go-multihash"
	"github.com/multiformats/go-varint"
)

// Rng returns a PRNG that is a pure function of (seed, stream ids).
func Rng(seed int64, streams ...uint64) *rand.Rand {
	s := uint64(seed)*0x9E3779B97F4A7C15 + 0x1234567
	var t uint64 = 0xD1B54A32D192ED03
	for _, x := range streams {
		t = (t ^ x) * 0x9FB21C651E98DF25
		t ^= t >> 29
	}
	return rand.New(rand.NewPCG(s, t))
}

// Config is one store configuration.
type Config struct {
	Primary         string `json:"primary"` // "multihash" | "CID"
	Immutable       bool   `json:"immutable"`
	Bits            uint8  `json:"bits"`
	IndexFileSize   uint32 `json:"index_file_size"`
	PrimaryFileSize uint32 `json:"primary_file_size"`
	FileCache       int    `json:"file_cache"`
}

func (c Config) String() string {
	return fmt.Sprintf("%s/imm=%v/bits=%d/ifs=%d/pfs=%d/fc=%d", c.Primary, c.Immutable, c.Bits, c.IndexFileSize, c.PrimaryFileSize, c.FileCache)
}

const (
	DefaultFileSize = 1024 * 1024 * 1024
	MH              = "multihash"
	CID             = "CID"
)

var (
	BitsChoices  = []uint8{8, 9, 12, 16, 17, 20}
	IdxFileSizes = []uint32{16, 40, 100, 1024, 64 * 1024, DefaultFileSize}
	PrimFileSize = []uint32{16, 50, 300, 4096, DefaultFileSize}
	FileCaches   = []int{0, 1, 2, 512}
)

// PickConfig draws a configuration. mhOnly restricts to the multihash primary;
// smallFiles biases towards tiny file limits so that files roll over.
func PickConfig(r *rand.Rand, mhOnly, smallFiles bool, maxBits uint8) Config {
	c := Config{Primary: MH}
	if !mhOnly && r.IntN(3) == 0 {
		c.Primary = CID
	}
	c.Immutable = r.IntN(4) == 0
	for {
		c.Bits = BitsChoices[r.IntN(len(BitsChoices))]
		if c.Bits <= maxBits {
			break
		}
	}
	if smallFiles {
		c.IndexFileSize = IdxFileSizes[r.IntN(4)]
		c.PrimaryFileSize = PrimFileSize[r.IntN(4)]
	} else {
		c.IndexFileSize = IdxFileSizes[r.IntN(len(IdxFileSizes))]
		c.PrimaryFileSize = PrimFileSize[r.IntN(len(PrimFileSize))]
	}
	c.FileCache = FileCaches[r.IntN(len(FileCaches))]
	return c
}

// Key is one key of a universe.
type Key struct {
	Digest []byte // what the index sees
	Raw    []byte // what is passed to the store (multihash or CID bytes)
}

// Universe is a set of keys whose digests are pairwise not prefixes of each other.
type Universe struct {
	Keys []Key
	Desc string
}

var hashCodes = []uint64{0x00, 0x12, 0xb220, 0x13}
var codecs = []uint64{0x55, 0x70, 0x71}

// EncodeMH wraps a digest in a multihash with the given code without
// validating the digest length (Decode does not either).
func EncodeMH(code uint64, digest []byte) []byte {
	buf := make([]byte, 0, len(digest)+12)
	buf = append(buf, varint.ToUvarint(code)...)
	buf = append(buf, varint.ToUvarint(uint64(len(digest)))...)
	return append(buf, digest...)
}

// RawKey builds the key bytes the store expects for the primary type.
func RawKey(primary string, r *rand.Rand, digest []byte) []byte {
	code := hashCodes[r.IntN(len(hashCodes))]
	mh := EncodeMH(code, digest)
	if primary == MH {
		return mh
	}
	// CID: v0 only for sha2-256 32-byte digests, else v1 with a codec.
	if len(digest) == 32 && r.IntN(3) == 0 {
		mh = EncodeMH(0x12, digest)
		c := cid.NewCidV0(multihash.Multihash(mh))
		return c.Bytes()
	}
	c := cid.NewCidV1(codecs[r.IntN(len(codecs))], multihash.Multihash(mh))
	return c.Bytes()
}

func prefixFree(ds [][]byte) bool {
	s := make([][]byte, len(ds))
	copy(s, ds)
	sort.Slice(s, func(i, j int) bool { return bytes.Compare(s[i], s[j]) < 0 })
	for i := 1; i < len(s); i++ {
		if bytes.HasPrefix(s[i], s[i-1]) {
			return false
		}
	}
	return true
}

// MakeUniverse builds n digests hostile to the index: few distinct leading
// bytes (so buckets are shared), a tiny alphabet and long common prefixes.
func MakeUniverse(r *rand.Rand, primary string, n int) Universe {
	for {
		u, ok := makeUniverse(r, primary, n)
		if ok {
			return u
		}
	}
}

func makeUniverse(r *rand.Rand, primary string, n int) (Universe, bool) {
	kind := r.IntN(10)
	var L int
	mixed := false
	switch {
	case kind == 0:
		L = 4
	case kind <= 3:
		L = 8
	case kind <= 5:
		L = 20
	case kind <= 7:
		L = 32
	case kind == 8:
		L = 64 + r.IntN(260) // long digests that differ late (up to 323 bytes: key lengths beyond one byte)
	default:
		L = 8
		mixed = true
	}
	asz := 2 + r.IntN(3)
	alpha := make([]byte, asz)
	for i := range alpha {
		switch r.IntN(6) {
		case 0:
			alpha[i] = 0x00
		case 1:
			alpha[i] = 0xff
		default:
			alpha[i] = byte(r.IntN(256))
		}
	}
	// distinct alphabet
	seen := map[byte]bool{}
	for i := range alpha {
		for seen[alpha[i]] {
			alpha[i]++
		}
		seen[alpha[i]] = true
	}
	randomCtl := r.IntN(12) == 0 // control universe of random digests
	var ds [][]byte
	have := map[string]bool{}
	tries := 0
	for len(ds) < n && tries < n*50 {
		tries++
		l := L
		if mixed {
			l = 4 + r.IntN(12)
		}
		d := make([]byte, l)
		if randomCtl || len(ds) == 0 || r.IntN(8) == 0 {
			for i := range d {
				if randomCtl {
					d[i] = byte(r.IntN(256))
				} else {
					d[i] = alpha[r.IntN(asz)]
				}
			}
			// few distinct heads: reuse head of an existing key often
			if len(ds) > 0 && r.IntN(4) != 0 {
				copy(d[:min(3, l)], ds[r.IntN(len(ds))])
			}
		} else {
			// mutate an existing key at a late-biased position
			base := ds[r.IntN(len(ds))]
			for i := range d {
				if i < len(base) {
					d[i] = base[i]
				} else {
					d[i] = alpha[r.IntN(asz)]
				}
			}
			var p int
			switch r.IntN(4) {
			case 0:
				p = l - 1
			case 1:
				p = l - 1 - r.IntN(min(l, 3))
			case 2:
				p = min(l-1, 1+r.IntN(4))
			default:
				p = r.IntN(l)
			}
			nb := alpha[r.IntN(asz)]
			if nb == d[p] {
				nb = alpha[(bytes.IndexByte(alpha, nb)+1)%asz]
			}
			d[p] = nb
			if r.IntN(3) == 0 && p+1 < l {
				d[p+1] = alpha[r.IntN(asz)]
			}
		}
		if have[string(d)] {
			continue
		}
		have[string(d)] = true
		ds = append(ds, d)
	}
	// Two keys that agree in their first 250 bytes are not generated: the index stores the distinguishing
	// prefix length in one byte, so two keys of one bucket sharing 255 or more bytes behind the bucket bytes
	// cannot be told apart (known finding C01-F1 / C08-F1, exercised by its own reproducer).
	if L > 250 {
		var keep [][]byte
		for _, d := range ds {
			ok := true
			for _, e := range keep {
				n := 0
				for n < len(d) && n < len(e) && d[n] == e[n] {
					n++
				}
				if n >= 250 {
					ok = false
					break
				}
			}
			if ok {
				keep = append(keep, d)
			}
		}
		ds = keep
	}
	if len(ds) < 2 {
		return Universe{}, false
	}
	if !prefixFree(ds) {
		// drop offenders (only possible for mixed lengths)
		sort.Slice(ds, func(i, j int) bool { return bytes.Compare(ds[i], ds[j]) < 0 })
		var keep [][]byte
		for _, d := range ds {
			if len(keep) > 0 && bytes.HasPrefix(d, keep[len(keep)-1]) {
				continue
			}
			keep = append(keep, d)
		}
		ds = keep
		r.Shuffle(len(ds), func(i, j int) { ds[i], ds[j] = ds[j], ds[i] })
		if len(ds) < 2 {
			return Universe{}, false
		}
	}
	u := Universe{Desc: fmt.Sprintf("L=%d mixed=%v alpha=%x random=%v n=%d", L, mixed, alpha, randomCtl, len(ds))}
	for _, d := range ds {
		u.Keys = append(u.Keys, Key{Digest: d, Raw: RawKey(primary, r, d)})
	}
	return u, true
}

// Bucket computes the bucket of a digest exactly as the index does.
func Bucket(digest []byte, bits uint8) uint32 {
	return binary.LittleEndian.Uint32(digest) & ((1 << bits) - 1)
}

// Value builds a value of the given length carrying the unique id in its
// first bytes (as far as the length allows).
func Value(id uint64, length int) []byte {
	if length == 0 {
		return []byte{}
	}
	v := make([]byte, length)
	var hdr [8]byte
	binary.BigEndian.PutUint64(hdr[:], id)
	// most significant bytes are mostly zero: put low bytes first
	for i := 0; i < length && i < 8; i++ {
		v[i] = hdr[7-i]
	}
	for i := 8; i < length; i++ {
		v[i] = byte(id*31 + uint64(i)*7)
	}
	return v
}

// ValueLen draws a value length with the hostile distribution of the design.
func ValueLen(r *rand.Rand, allowHuge bool) int {
	switch x := r.IntN(100); {
	case x < 10:
		return 0
	case x < 18:
		return 1
	case x < 60:
		return 2 + r.IntN(39)
	case x < 97:
		return 100 + r.IntN(201)
	default:
		if allowHuge {
			return 66000 + r.IntN(3000)
		}
		return 300 + r.IntN(800)
	}
}

func min(a, b int) int {
	if a < b {
		return a
	}
	return b
}
