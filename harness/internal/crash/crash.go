// Package crash implements crash imaging: during a single-threaded run the
// hook handler copies the store directory at every hook point (all of which
// sit before a file-system mutation or between two of them), so one execution
// yields the directory state a process crash would leave at each point. Torn
// appends and half-rewritten files are synthesised between consecutive images.
package crash

import (
	"bytes"
	"fmt"
	"sort"
	"strings"
	"sync"

	"verif/harness/internal/core"
	"verif/harness/internal/hookrt"
)

// Point is one crash state.
type Point struct {
	Hook string // hook at which the image was taken ("after-call" for the harness' own images)
	Call int    // index of the top-level call being executed
	Kind string // "step" or a torn/emptied variant description
	Img  core.DirImage
	Tag  any // caller data frozen at the start of the call (allowed sets)
}

// Recorder collects images while enabled.
type Recorder struct {
	Root    string
	Points  []Point
	Enabled bool
	Call    int
	Tag     any
	last    string
	Hooks   map[string]int64 // images per hook name
	Skipped int64            // identical consecutive images dropped
	Filter  func(hook string) bool
	mu      sync.Mutex
}

func NewRecorder(root string, rt *hookrt.RT) *Recorder {
	rc := &Recorder{Root: root, Hooks: map[string]int64{}}
	rt.OnHook(func(name string, v any, hit int64) {
		rc.mu.Lock()
		on := rc.Enabled
		rc.mu.Unlock()
		if on && (rc.Filter == nil || rc.Filter(name)) {
			rc.Capture(name)
		}
	})
	return rc
}

// SetEnabled switches imaging on or off (safe against hook callbacks on other goroutines).
func (rc *Recorder) SetEnabled(on bool) {
	rc.mu.Lock()
	rc.Enabled = on
	rc.mu.Unlock()
}

// Capture takes an image now.
func (rc *Recorder) Capture(hook string) {
	rc.mu.Lock()
	defer rc.mu.Unlock()
	img, err := core.Snapshot(rc.Root)
	if err != nil {
		return
	}
	h := img.Hash()
	if h == rc.last {
		rc.Skipped++
		return
	}
	rc.last = h
	rc.Hooks[hook]++
	rc.Points = append(rc.Points, Point{Hook: hook, Call: rc.Call, Kind: "step", Img: img, Tag: rc.Tag})
}

// cut positions for an appended region of n bytes starting at base
func cutPoints(n int, thorough bool) []int {
	if n <= 1 {
		return nil
	}
	var cs []int
	if thorough && n <= 512 {
		for i := 1; i < n; i++ {
			cs = append(cs, i)
		}
		return cs
	}
	set := map[int]bool{}
	for _, c := range []int{1, 2, 3, 4, 5, 7, 8, 12, 13, n / 2, n - 5, n - 4, n - 3, n - 1} {
		if c >= 1 && c < n {
			set[c] = true
		}
	}
	for c := range set {
		cs = append(cs, c)
	}
	sort.Ints(cs)
	return cs
}

// recordBoundaries finds [u32 size][size bytes] record ends inside an appended region.
func recordBoundaries(region []byte) []int {
	var out []int
	p := 0
	for p+4 <= len(region) {
		sz := int(uint32(region[p]) | uint32(region[p+1])<<8 | uint32(region[p+2])<<16 | uint32(region[p+3])<<24)
		sz &= 0x7fffffff
		p += 4 + sz
		if p < len(region) && p > 0 {
			out = append(out, p)
		} else {
			break
		}
	}
	return out
}

// Variants synthesises the torn states between image a and its successor b.
// MultiHooks counts, per hook name, transitions in which more than one file changed
// (a missing step point between two file-system mutations).
var MultiHooks = map[string]int64{}

func Variants(a, b Point, thorough bool, multi *int64) []Point {
	var out []Point
	changed := 0
	for name, nb := range b.Img {
		if len(name) > 0 && name[len(name)-1] == '/' {
			continue
		}
		ob, existed := a.Img[name]
		if existed && bytes.Equal(ob, nb) {
			continue
		}
		{
			// a file that appears (or is replaced) with the content of one that disappeared
			// was renamed into place: atomic
			renamed := false
			for on, oc := range a.Img {
				if _, still := b.Img[on]; !still && on[len(on)-1] != '/' && bytes.Equal(oc, nb) {
					renamed = true
					break
				}
			}
			if renamed {
				continue
			}
		}
		if existed || len(nb) > 0 {
			changed++
		}
		mk := func(kind string, content []byte) {
			img := a.Img.Clone()
			img[name] = content
			// the parent directory must exist in the variant
			for d := range b.Img {
				if len(d) > 0 && d[len(d)-1] == '/' && len(name) > len(d) && name[:len(d)] == d {
					img[d] = nil
				}
			}
			out = append(out, Point{Hook: b.Hook, Call: b.Call, Kind: kind, Img: img, Tag: b.Tag})
		}
		switch {
		case !existed || (len(nb) > len(ob) && bytes.Equal(nb[:len(ob)], ob)):
			// created or appended: cut the appended region
			base := len(ob)
			region := nb[base:]
			if !existed {
				mk(fmt.Sprintf("created-empty:%s", name), []byte{})
			}
			cuts := cutPoints(len(region), thorough)
			cs := map[int]bool{}
			bounds := recordBoundaries(region)
			if strings.Contains(name, ".buckets") || strings.HasSuffix(name, ".tmp") {
				// temporary files are never read back: a few cuts suffice
				cuts = []int{1, len(region) / 2, len(region) - 1}
				bounds = nil
			}
			for _, c := range cuts {
				if c >= 1 && c < len(region) {
					cs[c] = true
				}
			}
			for _, c := range bounds {
				cs[c] = true
				if c+1 < len(region) {
					cs[c+1] = true
				}
				if c+4 < len(region) {
					cs[c+4] = true
				}
			}
			var all []int
			for c := range cs {
				all = append(all, c)
			}
			sort.Ints(all)
			for _, c := range all {
				mk(fmt.Sprintf("torn-append:%s@%d/%d", name, c, len(region)), append(append([]byte{}, ob...), region[:c]...))
			}
		case existed && len(nb) == len(ob):
			// in-place rewrite of equal length (4-byte size prefix updates): atomic
		case existed && len(nb) < len(ob) && bytes.Equal(ob[:len(nb)], nb):
			// truncation: atomic
		default:
			// whole content replaced (truncate + write): empty, then prefixes of the new content
			mk(fmt.Sprintf("rewrite-emptied:%s", name), []byte{})
			for _, c := range cutPoints(len(nb), thorough) {
				mk(fmt.Sprintf("rewrite-torn:%s@%d/%d", name, c, len(nb)), append([]byte{}, nb[:c]...))
			}
		}
	}
	for name, oc := range a.Img {
		if _, ok := b.Img[name]; !ok && name[len(name)-1] != '/' {
			moved := false
			for bn, bc := range b.Img {
				if _, was := a.Img[bn]; (!was || !bytes.Equal(a.Img[bn], bc)) && bytes.Equal(bc, oc) && bn[len(bn)-1] != '/' {
					moved = true
					break
				}
			}
			if !moved {
				changed++
			}
		}
	}
	if changed > 1 && multi != nil {
		*multi++
		MultiHooks[a.Hook+" -> "+b.Hook]++
	}
	return out
}
