// Package conc runs concurrent client programs against one open store while
// flushes, collectors and cache resizes run, records the history at the public
// API boundary with one logical clock, and checks it: error classes, per-key
// linearizability (porcupine) against the reference map, final state, fsck.
package conc

import (
	"bytes"
	"context"
	"errors"
	"fmt"
	"math/rand/v2"
	"runtime"
	"sort"
	"strings"
	"sync"
	"sync/atomic"
	"time"

	"github.com/anishathalye/porcupine"
	"github.com/ipld/go-storethehash/store"
	"github.com/ipld/go-storethehash/store/types"

	"verif/harness/internal/core"
	"verif/harness/internal/gen"
	"verif/harness/internal/hookrt"
)

type COp struct {
	Kind string `json:"op"` // put get has size rm
	K    int    `json:"k"`
	VID  uint64 `json:"vid,omitempty"`
	VLen int    `json:"vlen,omitempty"`
}

func (o COp) String() string {
	if o.Kind == "put" {
		return fmt.Sprintf("put(k%d,v%x/%d)", o.K, o.VID, o.VLen)
	}
	return fmt.Sprintf("%s(k%d)", o.Kind, o.K)
}

// Plan is one concurrent case.
type Plan struct {
	Cfg          gen.Config
	U            gen.Universe
	Clients      [][]COp
	Mode         string // free | noise | depth
	Seed         uint64
	Procs        int
	Flusher      bool // Store.Start with SyncInterval
	SyncInterval time.Duration
	FlushLoop    bool          // explicit goroutine calling Flush
	GCPrimary    bool          // harness-driven primary GC loop (one goroutine)
	GCIndex      bool          // harness-driven index GC loop (one goroutine)
	GCBackground time.Duration // >0: background collectors with this interval instead
	GCTimeLimit  time.Duration
	LowUse       []int
	CacheResize  bool
	SizeQueries  bool
	RateLimited  bool // BurstRate(1) + tiny measured flush rate: writers take the waiting path
	Extra        []store.Option
}

// Rec is one recorded client call.
type Rec struct {
	Client int    `json:"c"`
	Op     COp    `json:"op"`
	Call   int64  `json:"call"`
	Ret    int64  `json:"ret"`
	Found  bool   `json:"found,omitempty"`
	Val    string `json:"-"`
	ValLen int    `json:"vallen,omitempty"`
	Rm     bool   `json:"removed,omitempty"`
	Size   int    `json:"size,omitempty"`
	Err    string `json:"err,omitempty"`
}

type Outcome struct {
	Recs                      []Rec
	Events                    []hookrt.Event
	Roles                     map[int64]string
	FlushCalls                int64
	GCPrimCycles, GCIdxCycles int64
	Store                     *store.Store
}

func errClass(err error) string {
	if err == nil {
		return ""
	}
	if errors.Is(err, types.ErrKeyExists) {
		return "keyexists"
	}
	s := err.Error()
	switch {
	case strings.Contains(s, "key to update not found"):
		return "update-key-not-found"
	case strings.Contains(s, "no records found in index"):
		return "update-no-records"
	case strings.Contains(s, "error reading index records from disk"):
		return "index-read-error"
	case strings.Contains(s, "error reading previous key from primary"):
		return "prev-key-read-error"
	case strings.Contains(s, "multihash primary") || strings.Contains(s, "cid primary"):
		return "primary-read-error"
	case strings.Contains(s, "file already closed"):
		return "file-closed"
	case strings.Contains(s, "no such file"):
		return "no-such-file"
	}
	return "other"
}

func val(o COp) []byte {
	if o.VLen == 0 {
		return []byte{}
	}
	return gen.Value(o.VID, o.VLen)
}

// NoiseDelay is the deterministic-per-plan perturbation function.
func NoiseDelay(seed uint64, mode string, depthHits map[string]bool) func(name string, hit int64, goid int64) time.Duration {
	if mode == "free" {
		return nil
	}
	return func(name string, hit int64, goid int64) time.Duration {
		h := seed
		for i := 0; i < len(name); i++ {
			h = (h ^ uint64(name[i])) * 0x100000001b3
		}
		h = (h ^ uint64(hit)) * 0x9E3779B97F4A7C15
		h ^= h >> 31
		if mode == "depth" {
			if depthHits[fmt.Sprintf("%s#%d", name, hit)] {
				return time.Duration(5+h%15) * time.Millisecond
			}
			return 0
		}
		switch x := h % 1000; {
		case x < 800:
			return 0
		case x < 900:
			return -1
		case x < 990:
			return time.Duration(20+h%480) * time.Microsecond
		default:
			return time.Duration(1+h%4) * time.Millisecond
		}
	}
}

// Run executes the plan. The store is left open (caller closes it) so that
// callers can add their own quiescent checks.
func Run(env *core.Env, pl Plan, rt *hookrt.RT, res *core.CaseResult) *Outcome {
	out := &Outcome{Roles: map[int64]string{}}
	if pl.Procs > 0 {
		defer runtime.GOMAXPROCS(runtime.GOMAXPROCS(pl.Procs))
	}
	opts := append([]store.Option{}, pl.Extra...)
	if pl.Flusher && pl.SyncInterval > 0 {
		opts = append(opts, store.SyncInterval(pl.SyncInterval))
	}
	if pl.GCBackground > 0 {
		opts = append(opts, store.GCInterval(pl.GCBackground), store.GCTimeLimit(pl.GCTimeLimit))
	}
	if pl.RateLimited {
		opts = append(opts, store.BurstRate(1))
	}
	s, err := env.Open(opts...)
	if err != nil {
		res.Violate("open-error", "conc-open-error", 0, nil, "OpenStore failed: %v", err)
		return nil
	}
	out.Store = s
	if pl.Flusher {
		s.Start()
	}
	var rolesMu sync.Mutex
	role := func(r string) {
		rolesMu.Lock()
		out.Roles[hookrt.Goid()] = r
		rolesMu.Unlock()
	}
	var wg, bg sync.WaitGroup
	done := make(chan struct{})
	recs := make([][]Rec, len(pl.Clients))
	for ci, prog := range pl.Clients {
		wg.Add(1)
		go func(ci int, prog []COp) {
			defer wg.Done()
			role(fmt.Sprintf("c%d", ci))
			for _, o := range prog {
				if pl.RateLimited && (o.Kind == "put" || o.Kind == "rm") {
					s.VerifSetFlushRate(1e-9)
				}
				k := pl.U.Keys[o.K]
				r := Rec{Client: ci, Op: o}
				key := append([]byte{}, k.Raw...)
				switch o.Kind {
				case "put":
					v := val(o)
					r.Call = hookrt.Tick()
					err := s.Put(key, append([]byte{}, v...))
					r.Ret = hookrt.Tick()
					r.Err = errClass(err)
					if r.Err == "other" {
						r.Err = "other:" + err.Error()
					}
				case "get":
					r.Call = hookrt.Tick()
					v, found, err := s.Get(key)
					if found {
						r.Val = string(append([]byte{}, v...))
						r.ValLen = len(v)
					}
					r.Ret = hookrt.Tick()
					r.Found = found
					r.Err = errClass(err)
					if r.Err == "other" {
						r.Err = "other:" + err.Error()
					}
				case "has":
					r.Call = hookrt.Tick()
					has, err := s.Has(key)
					r.Ret = hookrt.Tick()
					r.Found = has
					r.Err = errClass(err)
				case "size":
					r.Call = hookrt.Tick()
					sz, found, err := s.GetSize(key)
					r.Ret = hookrt.Tick()
					r.Found, r.Size = found, int(sz)
					r.Err = errClass(err)
				case "rm":
					r.Call = hookrt.Tick()
					rm, err := s.Remove(key)
					r.Ret = hookrt.Tick()
					r.Rm = rm
					r.Err = errClass(err)
				}
				recs[ci] = append(recs[ci], r)
			}
		}(ci, prog)
	}
	rr := rand.New(rand.NewPCG(pl.Seed, 99))
	if pl.FlushLoop {
		gap := time.Duration(50+rr.IntN(1500)) * time.Microsecond
		bg.Add(1)
		go func() {
			defer bg.Done()
			role("flush-loop")
			for {
				select {
				case <-done:
					return
				default:
				}
				if err := s.Flush(); err != nil {
					res.Violate("flush-error", "conc-flush-error:"+errClass(err), 0, nil, "Flush failed during concurrent activity: %v", err)
					return
				}
				atomic.AddInt64(&out.FlushCalls, 1)
				time.Sleep(gap)
			}
		}()
	}
	lowUse := pl.LowUse
	if len(lowUse) == 0 {
		lowUse = []int{1, 50, 85}
	}
	if pl.GCPrimary {
		if mp := core.MH(s); mp != nil {
			bg.Add(1)
			go func() {
				defer bg.Done()
				role("gc-primary")
				for i := 0; ; i++ {
					select {
					case <-done:
						return
					default:
					}
					p := core.Protect(func() { mp.GC(context.Background(), int64(lowUse[i%len(lowUse)])) })
					if p != nil {
						res.Violate("panic", "conc-gcp-panic", 0, nil, "primary GC cycle panicked: %v", p)
						return
					}
					atomic.AddInt64(&out.GCPrimCycles, 1)
					time.Sleep(200 * time.Microsecond)
				}
			}()
		}
	}
	if pl.GCIndex {
		bg.Add(1)
		go func() {
			defer bg.Done()
			role("gc-index")
			for i := 0; ; i++ {
				select {
				case <-done:
					return
				default:
				}
				p := core.Protect(func() { s.Index().VerifGC(context.Background(), i%2 == 0) })
				if p != nil {
					res.Violate("panic", "conc-gci-panic", 0, nil, "index GC cycle panicked: %v", p)
					return
				}
				atomic.AddInt64(&out.GCIdxCycles, 1)
				time.Sleep(200 * time.Microsecond)
			}
		}()
	}
	if pl.CacheResize {
		bg.Add(1)
		go func() {
			defer bg.Done()
			role("cache-resize")
			sizes := []int{0, 1, 2, 512, 1, 3}
			for i := 0; ; i++ {
				select {
				case <-done:
					return
				default:
				}
				s.SetFileCacheSize(sizes[i%len(sizes)])
				time.Sleep(300 * time.Microsecond)
			}
		}()
	}
	if pl.SizeQueries {
		bg.Add(1)
		go func() {
			defer bg.Done()
			role("size-query")
			for i := 0; ; i++ {
				select {
				case <-done:
					return
				default:
				}
				var err error
				switch i % 5 {
				case 0:
					_, err = s.StorageSize()
				case 1:
					_, err = s.IndexStorageSize()
				case 2:
					_, err = s.PrimaryStorageSize()
				case 3:
					_, err = s.FreelistStorageSize()
				default:
					err = s.Err()
				}
				_ = err // size queries racing with file removal may legitimately fail; C16 looks at races only
				time.Sleep(150 * time.Microsecond)
			}
		}()
	}
	wg.Wait()
	close(done)
	bg.Wait()
	for _, rs := range recs {
		out.Recs = append(out.Recs, rs...)
	}
	out.Events = rt.Events()
	return out
}

// ---------------------------------------------------------------- checking

type kin struct {
	Kind string
	Val  string
}
type kout struct {
	Found bool
	Val   string
	Rm    bool
	Size  int
	Err   string
}
type kstate struct {
	Present bool
	Val     string
}

func modelFor(immutable bool) porcupine.Model {
	return porcupine.Model{
		Init: func() interface{} { return kstate{} },
		Step: func(st, in, out interface{}) (bool, interface{}) {
			s := st.(kstate)
			i := in.(kin)
			o := out.(kout)
			switch i.Kind {
			case "put":
				if o.Err == "keyexists" {
					return immutable && s.Present, s
				}
				if immutable && s.Present {
					return false, s
				}
				return true, kstate{true, i.Val}
			case "get":
				return o.Found == s.Present && (!s.Present || o.Val == s.Val), s
			case "has":
				return o.Found == s.Present, s
			case "size":
				return o.Found == s.Present && (!s.Present || o.Size == len(s.Val)), s
			case "rm":
				return o.Rm == s.Present, kstate{}
			}
			return false, s
		},
		Equal: func(a, b interface{}) bool { return a.(kstate) == b.(kstate) },
		DescribeOperation: func(in, out interface{}) string {
			i := in.(kin)
			o := out.(kout)
			v := i.Val
			if len(v) > 8 {
				v = v[:8]
			}
			ov := o.Val
			if len(ov) > 8 {
				ov = ov[:8]
			}
			return fmt.Sprintf("%s(%x) -> found=%v val=%x rm=%v size=%d err=%s", i.Kind, v, o.Found, ov, o.Rm, o.Size, o.Err)
		},
	}
}

// CheckStats is what the history check observed.
type CheckStats struct {
	Keys, Ok, Illegal, Unknown, SkippedErr int
	OverlapSameBucket                      int
	OverlapSameKey                         int
	MultiWriterKeys                        int
}

// Check evaluates error classes and per-key linearizability. finals are reads
// performed after quiescence (they are appended to the history).
func Check(pl Plan, recs []Rec, finals []Rec, res *core.CaseResult, sigPrefix string, sigSuffix func(r Rec) string) CheckStats {
	var cs CheckStats
	all := append(append([]Rec{}, recs...), finals...)
	byKey := map[int][]Rec{}
	errKeys := map[int]bool{}
	for _, r := range all {
		byKey[r.Op.K] = append(byKey[r.Op.K], r)
		if r.Err != "" && r.Err != "keyexists" {
			errKeys[r.Op.K] = true
			suf := ""
			if sigSuffix != nil {
				suf = sigSuffix(r)
			}
			cls := r.Err
			if strings.HasPrefix(cls, "other:") {
				cls = "other"
			}
			res.Violate("call-error", sigPrefix+"error:"+r.Op.Kind+":"+cls+suf, 0, r, "client %d: %s returned error class %q (call %d, return %d)", r.Client, r.Op, r.Err, r.Call, r.Ret)
		}
		if r.Err == "keyexists" && !pl.Cfg.Immutable {
			res.Violate("call-error", sigPrefix+"keyexists-in-mutable-mode", 0, r, "client %d: %s returned key-exists although the store is not immutable", r.Client, r.Op)
		}
	}
	// overlap statistics (non-triviality)
	sort.Slice(recs, func(i, j int) bool { return recs[i].Call < recs[j].Call })
	bucket := func(k int) uint32 { return gen.Bucket(pl.U.Keys[k].Digest, pl.Cfg.Bits) }
	for i := range recs {
		for j := i + 1; j < len(recs) && recs[j].Call < recs[i].Ret; j++ {
			if recs[i].Client == recs[j].Client {
				continue
			}
			if recs[i].Op.K == recs[j].Op.K {
				cs.OverlapSameKey++
			} else if bucket(recs[i].Op.K) == bucket(recs[j].Op.K) {
				cs.OverlapSameBucket++
			}
		}
	}
	writers := map[int]map[int]bool{}
	for _, r := range recs {
		if r.Op.Kind == "put" || r.Op.Kind == "rm" {
			if writers[r.Op.K] == nil {
				writers[r.Op.K] = map[int]bool{}
			}
			writers[r.Op.K][r.Client] = true
		}
	}
	for _, w := range writers {
		if len(w) > 1 {
			cs.MultiWriterKeys++
		}
	}
	m := modelFor(pl.Cfg.Immutable)
	var keys []int
	for k := range byKey {
		keys = append(keys, k)
	}
	sort.Ints(keys)
	for _, k := range keys {
		cs.Keys++
		if errKeys[k] {
			cs.SkippedErr++
			continue
		}
		var ops []porcupine.Operation
		for _, r := range byKey[k] {
			in := kin{Kind: r.Op.Kind}
			if r.Op.Kind == "put" {
				in.Val = string(val(r.Op))
			}
			ops = append(ops, porcupine.Operation{ClientId: r.Client, Input: in, Call: r.Call, Output: kout{r.Found, r.Val, r.Rm, r.Size, r.Err}, Return: r.Ret})
		}
		result, info := porcupine.CheckOperationsVerbose(m, ops, 60*time.Second)
		switch result {
		case porcupine.Ok:
			cs.Ok++
		case porcupine.Unknown:
			cs.Unknown++
		case porcupine.Illegal:
			cs.Illegal++
			_ = info
			suf := ""
			if len(writers[k]) > 1 {
				suf = "+multi-writer-key"
			}
			// witness: the key's sub-history in call order
			sub := append([]Rec{}, byKey[k]...)
			sort.Slice(sub, func(i, j int) bool { return sub[i].Call < sub[j].Call })
			var lines []string
			for _, r := range sub {
				v := r.Val
				if len(v) > 8 {
					v = v[:8]
				}
				lines = append(lines, fmt.Sprintf("[%d,%d] c%d %s -> found=%v val=%x rm=%v size=%d err=%s", r.Call, r.Ret, r.Client, r.Op, r.Found, v, r.Rm, r.Size, r.Err))
			}
			if len(lines) > 60 {
				lines = lines[len(lines)-60:]
			}
			res.Violate("not-linearizable", sigPrefix+"not-linearizable"+suf, 0, lines, "the recorded history of key k%d (%x) is not linearizable w.r.t. the map (%d operations, %d writers)", k, pl.U.Keys[k].Digest, len(sub), len(writers[k]))
		}
	}
	return cs
}

// FinalReads reads every key after quiescence and returns the records.
func FinalReads(pl Plan, s *store.Store) []Rec {
	var out []Rec
	for k := range pl.U.Keys {
		r := Rec{Client: 1000, Op: COp{Kind: "get", K: k}}
		r.Call = hookrt.Tick()
		v, found, err := s.Get(append([]byte{}, pl.U.Keys[k].Raw...))
		if found {
			r.Val = string(append([]byte{}, v...))
			r.ValLen = len(v)
		}
		r.Ret = hookrt.Tick()
		r.Found = found
		r.Err = errClass(err)
		out = append(out, r)
		r2 := Rec{Client: 1000, Op: COp{Kind: "size", K: k}}
		r2.Call = hookrt.Tick()
		sz, sfound, err := s.GetSize(append([]byte{}, pl.U.Keys[k].Raw...))
		r2.Ret = hookrt.Tick()
		r2.Found, r2.Size, r2.Err = sfound, int(sz), errClass(err)
		out = append(out, r2)
	}
	return out
}

// InterleavingHash summarises the order of (role, hook) events.
func InterleavingHash(evs []hookrt.Event, roles map[int64]string) string {
	var b bytes.Buffer
	n := 0
	for _, e := range evs {
		r := roles[e.G]
		if r == "" {
			r = "bg"
		}
		b.WriteString(r)
		b.WriteByte(':')
		b.WriteString(e.Name)
		b.WriteByte(';')
		n++
		if n >= 256 {
			break
		}
	}
	return core.HashStrings(b.String())
}

// GenClients draws client programs. classA: every key has exactly one writer
// (any number of readers); otherwise several clients write/remove the same keys.
func GenClients(r *rand.Rand, nclients, nkeys, nops int, classA bool, withEmpty bool) [][]COp {
	out := make([][]COp, nclients)
	owner := make([]int, nkeys)
	for k := range owner {
		owner[k] = r.IntN(nclients)
	}
	ctr := make([]uint64, nclients)
	for c := 0; c < nclients; c++ {
		var mine []int
		for k, o := range owner {
			if o == c {
				mine = append(mine, k)
			}
		}
		for i := 0; i < nops; i++ {
			x := r.IntN(100)
			k := r.IntN(nkeys)
			wk := k
			if classA {
				if len(mine) == 0 {
					x = 99 // reader only
				} else {
					wk = mine[r.IntN(len(mine))]
				}
			}
			switch {
			case x < 38:
				ctr[c]++
				vl := 8 + r.IntN(40)
				if withEmpty && r.IntN(12) == 0 {
					vl = 0
				}
				if r.IntN(20) == 0 {
					vl = 200 + r.IntN(200)
				}
				out[c] = append(out[c], COp{Kind: "put", K: wk, VID: uint64(c+1)<<32 | ctr[c], VLen: vl})
			case x < 52:
				out[c] = append(out[c], COp{Kind: "rm", K: wk})
			case x < 78:
				out[c] = append(out[c], COp{Kind: "get", K: k})
			case x < 88:
				out[c] = append(out[c], COp{Kind: "has", K: k})
			default:
				out[c] = append(out[c], COp{Kind: "size", K: k})
			}
		}
	}
	return out
}

// Exec1 performs one client call and records it.
func Exec1(s *store.Store, u gen.Universe, client int, o COp) Rec {
	k := u.Keys[o.K]
	r := Rec{Client: client, Op: o}
	key := append([]byte{}, k.Raw...)
	norm := func(err error) string {
		c := errClass(err)
		if c == "other" {
			c = "other:" + err.Error()
		}
		return c
	}
	switch o.Kind {
	case "put":
		v := val(o)
		r.Call = hookrt.Tick()
		err := s.Put(key, append([]byte{}, v...))
		r.Ret = hookrt.Tick()
		r.Err = norm(err)
	case "get":
		r.Call = hookrt.Tick()
		v, found, err := s.Get(key)
		if found {
			r.Val = string(append([]byte{}, v...))
			r.ValLen = len(v)
		}
		r.Ret = hookrt.Tick()
		r.Found = found
		r.Err = norm(err)
	case "has":
		r.Call = hookrt.Tick()
		has, err := s.Has(key)
		r.Ret = hookrt.Tick()
		r.Found = has
		r.Err = norm(err)
	case "size":
		r.Call = hookrt.Tick()
		sz, found, err := s.GetSize(key)
		r.Ret = hookrt.Tick()
		r.Found, r.Size = found, int(sz)
		r.Err = norm(err)
	case "rm":
		r.Call = hookrt.Tick()
		rm, err := s.Remove(key)
		r.Ret = hookrt.Tick()
		r.Rm = rm
		r.Err = norm(err)
	}
	return r
}
