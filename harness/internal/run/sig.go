package run

import "syscall"

var sigQuit = syscall.SIGQUIT
