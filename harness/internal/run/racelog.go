package run

import (
	"fmt"
	"os"
	"regexp"
	"sort"
	"strings"
)

// RaceReport is one deduplicated Go race detector report.
type RaceReport struct {
	Sig  string `json:"sig"`
	Text string `json:"text"`
	// Ours is true when at least one access stack has a go-storethehash frame.
	Ours bool `json:"ours"`
}

var frameRe = regexp.MustCompile(`(?m)^  ([^\s].*)\(\)\n\s+(\S+):(\d+)`)

// ParseRaceLog splits race detector output into reports and computes a
// signature: the first go-storethehash frame (function name, no line numbers)
// of each of the two conflicting access stacks, sorted.
func ParseRaceLog(text string) []RaceReport {
	var out []RaceReport
	blocks := strings.Split(text, "==================")
	for _, b := range blocks {
		if !strings.Contains(b, "WARNING: DATA RACE") {
			continue
		}
		// the two access stacks precede the "Goroutine N ... created at" sections
		body := b
		if i := strings.Index(body, "\nGoroutine "); i >= 0 {
			body = body[:i]
		}
		parts := regexp.MustCompile(`(?m)^(Write|Read|Previous write|Previous read|Atomic|Previous atomic)[^\n]*$`).Split(body, -1)
		var tops []string
		ours := false
		for _, p := range parts[1:] {
			top := ""
			for _, m := range frameRe.FindAllStringSubmatch(p, -1) {
				fn, file := m[1], m[2]
				if strings.Contains(fn, "go-storethehash") || strings.Contains(file, "/repo/") {
					if !strings.Contains(file, "/verif/") {
						top = fn
						ours = true
						break
					}
				}
			}
			if top == "" {
				if ms := frameRe.FindAllStringSubmatch(p, 1); len(ms) > 0 {
					top = ms[0][1]
				}
			}
			tops = append(tops, top)
		}
		sort.Strings(tops)
		t := strings.TrimSpace(b)
		if len(t) > 5000 {
			t = t[:5000] + "\n..."
		}
		out = append(out, RaceReport{Sig: strings.Join(tops, " <-> "), Text: t, Ours: ours})
	}
	return out
}

type raceTail struct {
	path string
	off  int64
}

func newRaceTail() *raceTail {
	base := os.Getenv("VERIF_RACELOG")
	if base == "" {
		return nil
	}
	return &raceTail{path: fmt.Sprintf("%s.%d", base, os.Getpid())}
}

// next returns the reports written since the last call.
func (rt *raceTail) next() []RaceReport {
	if rt == nil {
		return nil
	}
	b, err := os.ReadFile(rt.path)
	if err != nil || int64(len(b)) <= rt.off {
		return nil
	}
	chunk := string(b[rt.off:])
	rt.off = int64(len(b))
	return ParseRaceLog(chunk)
}
