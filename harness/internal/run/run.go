// Package run is the coordinator/worker framework: a check is a list of cases
// (pure functions of seed, tier, index); the coordinator shards them over
// worker child processes, attributes crashes to cases, matches violations
// against KNOWN_FINDINGS.json, writes replay files and the evidence file.
package run

import (
	"bufio"
	"encoding/json"
	"fmt"
	"os"
	"os/exec"
	"path/filepath"
	"runtime"
	"sort"
	"strconv"
	"strings"
	"sync"
	"time"

	"verif/harness/internal/core"
)

// Ctx identifies one case.
type Ctx struct {
	Prop  string
	Tier  string
	Seed  int64
	Index int
	Total int
}

func (c Ctx) ID() string { return fmt.Sprintf("%s-%s-s%d-c%d", c.Prop, c.Tier, c.Seed, c.Index) }

// Check describes one property's check.
type Check struct {
	ID          string
	Level       string // evidence level
	Race        bool   // must run in the race build
	Cases       func(tier string) int
	Run         func(c Ctx) *core.CaseResult
	Rule        string
	Assumptions []string
	Exhaustive  func(tier string) bool
	// Post lets a check add derived coverage keys from the summed stats.
	Post func(cov map[string]any, stats map[string]int64, tier string)
	// CaseTimeout bounds one case in a worker (watchdog => inconclusive unless
	// HangIsViolation).
	CaseTimeout      time.Duration
	HangIsViolation  bool
	HangInconclusive bool // stress checks: a watchdog firing is inconclusive
	MaxJobs          int
	RaceIsViolation  bool // C16: race detector reports are verdicts
	MinConclusive    int
	// Findings returns deterministic reproducers of known findings: name -> func
	// returning (stillReproduces, description).
	Findings map[string]func() (bool, string)
}

var Registry = map[string]*Check{}

func Register(c *Check) { Registry[c.ID] = c }

func VerifDir() string {
	if d := os.Getenv("VERIF_DIR"); d != "" {
		return d
	}
	return "/verif"
}

// ---------------------------------------------------------------- worker

// WorkerMain runs cases index = from, from+step, ... < total and prints
// "S <idx>" before and "R <json>" after each one.
func WorkerMain(prop, tier string, seed int64, from, step, total int) int {
	chk := Registry[prop]
	if chk == nil {
		fmt.Fprintln(os.Stderr, "unknown check", prop)
		return 2
	}
	w := bufio.NewWriter(os.Stdout)
	tail := newRaceTail()
	for i := from; i < total; i += step {
		fmt.Fprintf(w, "S %d\n", i)
		w.Flush()
		c := Ctx{Prop: prop, Tier: tier, Seed: seed, Index: i, Total: total}
		t0 := time.Now()
		res := runGuarded(chk, c)
		res.WallMS = time.Since(t0).Milliseconds()
		for _, rr := range tail.next() {
			if !rr.Ours {
				res.Add("race_reports_without_store_frame", 1)
				continue
			}
			res.Add("race_reports", 1)
			if chk.RaceIsViolation {
				res.Violate("data-race", "race:"+rr.Sig, 0, rr.Text, "Go race detector report: %s", rr.Sig)
			} else {
				res.Add("race_reports_seen_here_but_decided_by_C16", 1)
			}
		}
		if res.ID == "" {
			res.ID = c.ID()
		}
		if res.Verdict == "" {
			res.Verdict = "held"
		}
		b, err := json.Marshal(res)
		if err != nil {
			b, _ = json.Marshal(&core.CaseResult{ID: c.ID(), Verdict: "inconclusive", Note: "result not serialisable: " + err.Error()})
		}
		fmt.Fprintf(w, "R %s\n", b)
		w.Flush()
	}
	fmt.Fprintln(w, "E")
	w.Flush()
	return 0
}

func runGuarded(chk *Check, c Ctx) (res *core.CaseResult) {
	defer func() {
		if r := recover(); r != nil {
			buf := make([]byte, 16384)
			n := runtime.Stack(buf, false)
			res = &core.CaseResult{ID: c.ID(), Verdict: "violated"}
			res.Violations = append(res.Violations, core.Violation{Kind: "panic", Sig: "panic-harness-level", Msg: fmt.Sprintf("panic escaped the case: %v\n%s", r, buf[:n])})
		}
	}()
	return chk.Run(c)
}

// ---------------------------------------------------------------- findings

type Finding struct {
	ID       string   `json:"id"`
	Property string   `json:"property"`
	What     string   `json:"what"`
	Repro    string   `json:"reproducer"`
	Sigs     []string `json:"signatures"`
}

type FindingsFile struct {
	Findings []Finding `json:"findings"`
	Fixed    []string  `json:"fixed"`
}

func LoadFindings() (*FindingsFile, error) {
	var ff FindingsFile
	b, err := os.ReadFile(filepath.Join(VerifDir(), "KNOWN_FINDINGS.json"))
	if err != nil {
		if os.IsNotExist(err) {
			return &ff, nil
		}
		return nil, err
	}
	if err := json.Unmarshal(b, &ff); err != nil {
		return nil, err
	}
	return &ff, nil
}

func (ff *FindingsFile) match(prop, sig string) *Finding {
	if sig == "" {
		return nil
	}
	for i := range ff.Findings {
		f := &ff.Findings[i]
		if f.Property != prop {
			continue
		}
		for _, s := range f.Sigs {
			if globMatch(s, sig) {
				return f
			}
		}
	}
	return nil
}

// globMatch matches sig against a pattern in which '*' stands for any substring.
func globMatch(pat, sig string) bool {
	parts := strings.Split(pat, "*")
	if len(parts) == 1 {
		return pat == sig
	}
	if !strings.HasPrefix(sig, parts[0]) {
		return false
	}
	sig = sig[len(parts[0]):]
	for i := 1; i < len(parts)-1; i++ {
		j := strings.Index(sig, parts[i])
		if j < 0 {
			return false
		}
		sig = sig[j+len(parts[i]):]
	}
	return strings.HasSuffix(sig, parts[len(parts)-1])
}

// ---------------------------------------------------------------- coordinator

type workerOut struct {
	results []*core.CaseResult
	crashed []int // case indices during which the worker died
	logs    map[int]string
}

func runWorker(exe, prop, tier string, seed int64, from, step, total int, caseTimeout time.Duration, hangViolation bool, raceBase string) workerOut {
	var out workerOut
	out.logs = map[int]string{}
	start := from
	hangs := 0
	for start < total {
		cmd := exec.Command(exe, "worker", prop, "--tier", tier, "--seed", strconv.FormatInt(seed, 10),
			"--from", strconv.Itoa(start), "--step", strconv.Itoa(step), "--total", strconv.Itoa(total))
		errFile, _ := os.CreateTemp(core.Scratch(), "vchk-werr-")
		cmd.Stderr = errFile
		cmd.Env = append(os.Environ(), "GOLOG_LOG_LEVEL=fatal", "GOTRACEBACK=all")
		if raceBase != "" {
			cmd.Env = append(cmd.Env, "GORACE=halt_on_error=0 log_path="+raceBase, "VERIF_RACELOG="+raceBase)
		}
		stdout, _ := cmd.StdoutPipe()
		if err := cmd.Start(); err != nil {
			out.crashed = append(out.crashed, start)
			out.logs[start] = "cannot start worker: " + err.Error()
			return out
		}
		cur := -1
		finished := false
		lines := make(chan string, 64)
		go func() {
			sc := bufio.NewScanner(stdout)
			sc.Buffer(make([]byte, 1<<20), 64<<20)
			for sc.Scan() {
				lines <- sc.Text()
			}
			close(lines)
		}()
		timedOut := false
		var timer *time.Timer
		resetTimer := func() {
			if caseTimeout <= 0 {
				return
			}
			if timer == nil {
				timer = time.NewTimer(caseTimeout)
			} else {
				if !timer.Stop() {
					select {
					case <-timer.C:
					default:
					}
				}
				timer.Reset(caseTimeout)
			}
		}
		resetTimer()
		var tch <-chan time.Time
	loop:
		for {
			if timer != nil {
				tch = timer.C
			}
			select {
			case ln, ok := <-lines:
				if !ok {
					break loop
				}
				switch {
				case strings.HasPrefix(ln, "S "):
					cur, _ = strconv.Atoi(ln[2:])
					resetTimer()
				case strings.HasPrefix(ln, "R "):
					var r core.CaseResult
					if err := json.Unmarshal([]byte(ln[2:]), &r); err == nil {
						out.results = append(out.results, &r)
					}
					cur = -1
				case ln == "E":
					finished = true
				}
			case <-tch:
				timedOut = true
				cmd.Process.Signal(sigQuit)
				time.Sleep(300 * time.Millisecond)
				cmd.Process.Kill()
				break loop
			}
		}
		cmd.Wait()
		errFile.Close()
		eb, _ := os.ReadFile(errFile.Name())
		os.Remove(errFile.Name())
		if finished && !timedOut {
			return out
		}
		if cur < 0 {
			// died between cases: attribute to the next one
			cur = start
			if n := len(out.results); n > 0 {
				cur = start // conservative
			}
		}
		tail := string(eb)
		if len(tail) > 6000 {
			tail = tail[:3000] + "\n...\n" + tail[len(tail)-3000:]
		}
		if timedOut && !hangViolation {
			out.results = append(out.results, &core.CaseResult{ID: fmt.Sprintf("%s-%s-s%d-c%d", prop, tier, seed, cur), Verdict: "inconclusive", Note: "watchdog fired after " + caseTimeout.String()})
		} else {
			out.crashed = append(out.crashed, cur)
			if timedOut {
				tail = "WATCHDOG: case did not finish within " + caseTimeout.String() + "\n" + tail
			}
			out.logs[cur] = tail
		}
		if timedOut {
			hangs++
			if hangs >= 2 {
				// do not burn the whole budget on a tree that hangs again and again
				out.results = append(out.results, &core.CaseResult{ID: fmt.Sprintf("%s-%s-s%d-c%d", prop, tier, seed, cur+step), Verdict: "inconclusive", Note: "worker gave up after two watchdog firings; remaining cases of this shard not run"})
				return out
			}
		}
		// continue after the crashed case
		start = cur + step
		for start <= cur {
			start += step
		}
	}
	return out
}

type Summary struct {
	Violations int
	Known      int
}

// Coordinate runs the whole check and returns the process exit code.
func Coordinate(exe, prop, tier string, seed int64, jobs int) int {
	chk := Registry[prop]
	if chk == nil {
		fmt.Println("BROKEN unknown check", prop)
		return 2
	}
	t0 := time.Now()
	ff, err := LoadFindings()
	if err != nil {
		fmt.Println("BROKEN cannot read KNOWN_FINDINGS.json:", err)
		return 2
	}
	total := chk.Cases(tier)
	if chk.MaxJobs > 0 && jobs > chk.MaxJobs {
		jobs = chk.MaxJobs
	}
	if jobs > total {
		jobs = total
	}
	if jobs < 1 {
		jobs = 1
	}
	// deterministic reproducers of known findings
	knownPrinted := map[string]bool{}
	if chk.Findings != nil {
		for _, f := range ff.Findings {
			if f.Property != prop {
				continue
			}
			fn := chk.Findings[f.Repro]
			if fn == nil {
				continue
			}
			still, desc := fn()
			if still {
				fmt.Printf("KNOWN-FINDING: property=%s %s [%s] (%s)\n", prop, f.What, f.ID, desc)
				knownPrinted[f.ID] = true
			} else {
				fmt.Printf("note: known finding %s no longer reproduces (%s)\n", f.ID, desc)
			}
		}
	}
	ct := chk.CaseTimeout
	if ct == 0 {
		ct = 5 * time.Minute
	}
	outs := make([]workerOut, jobs)
	raceDir, _ := os.MkdirTemp(core.Scratch(), "vchk-racelogs-")
	defer os.RemoveAll(raceDir)
	var wg sync.WaitGroup
	for j := 0; j < jobs; j++ {
		wg.Add(1)
		go func(j int) {
			defer wg.Done()
			rb := ""
			if chk.Race {
				rb = filepath.Join(raceDir, fmt.Sprintf("race-w%d", j))
			}
			outs[j] = runWorker(exe, prop, tier, seed, j, jobs, total, ct, chk.HangIsViolation || !chk.HangInconclusive, rb)
		}(j)
	}
	wg.Wait()

	var results []*core.CaseResult
	for _, o := range outs {
		results = append(results, o.results...)
		for _, idx := range o.crashed {
			r := &core.CaseResult{ID: fmt.Sprintf("%s-%s-s%d-c%d", prop, tier, seed, idx), Verdict: "violated"}
			sig := "worker-crash"
			log := o.logs[idx]
			switch {
			case strings.Contains(log, "WATCHDOG"):
				sig = "hang"
			case strings.Contains(log, "fatal error: concurrent map"):
				sig = "fatal-concurrent-map"
			case strings.Contains(log, "fatal error: checkptr"):
				sig = "fatal-checkptr"
			}
			r.Violations = append(r.Violations, core.Violation{Kind: "crash", Sig: sig, Msg: "worker process died or hung while executing this case", Detail: log})
			results = append(results, r)
		}
	}
	sort.Slice(results, func(i, j int) bool { return caseIdx(results[i].ID) < caseIdx(results[j].ID) })

	stats := map[string]int64{}
	flags := map[string]int64{}
	distinct := map[string]bool{}
	var samples []any
	var held, violated, inconclusive, knownMatched int
	knownBy := map[string]int{}
	exit := 0
	os.MkdirAll(filepath.Join(VerifDir(), "replays"), 0o755)
	violLines := 0
	for _, r := range results {
		for k, v := range r.Stats {
			stats[k] += v
		}
		for _, f := range r.Flags {
			flags[f]++
		}
		if r.NonTrivial {
			distinct[r.Hash] = true
		}
		if r.Sample != nil && len(samples) < 3 {
			samples = append(samples, r.Sample)
		}
		switch r.Verdict {
		case "held":
			held++
		case "inconclusive":
			inconclusive++
		case "violated":
			newV := 0
			for _, v := range r.Violations {
				if f := ff.match(prop, v.Sig); f != nil {
					knownMatched++
					knownBy[f.ID]++
					if !knownPrinted[f.ID] {
						fmt.Printf("KNOWN-FINDING: property=%s %s [%s] (met during exploration, case %s)\n", prop, f.What, f.ID, r.ID)
						knownPrinted[f.ID] = true
					}
					continue
				}
				newV++
			}
			if newV == 0 {
				held++
				continue
			}
			violated++
			path := filepath.Join(VerifDir(), "replays", r.ID+".json")
			rb, _ := json.MarshalIndent(map[string]any{"property": prop, "tier": tier, "seed": seed, "index": caseIdx(r.ID), "result": r}, "", " ")
			os.WriteFile(path, rb, 0o644)
			if violLines < 10 {
				fmt.Printf("VIOLATION property=%s replay=%s\n", prop, path)
				shown := 0
				for _, v := range r.Violations {
					if ff.match(prop, v.Sig) != nil {
						continue // attributed to a known finding; not what makes this case a violation
					}
					if shown >= 3 {
						break
					}
					shown++
					msg := v.Msg
					if len(msg) > 400 {
						msg = msg[:400] + "..."
					}
					fmt.Printf("  [%s/%s step %d] %s\n", v.Kind, v.Sig, v.Step, msg)
				}
			}
			violLines++
			exit = 1
		}
	}
	conclusive := held + violated
	cov := map[string]any{
		"evaluations":            len(results),
		"distinct_nontrivial":    len(distinct),
		"rule":                   chk.Rule,
		"samples":                samples,
		"cases_held":             held,
		"cases_violated":         violated,
		"cases_inconclusive":     inconclusive,
		"known_findings_matched": knownBy,
		"flags_observed":         flags,
		"stats":                  stats,
		"workers":                jobs,
	}
	if chk.Exhaustive != nil && chk.Exhaustive(tier) {
		cov["exhaustive"] = true
	}
	if chk.Post != nil {
		chk.Post(cov, stats, tier)
	}
	if len(samples) == 0 {
		cov["samples"] = []any{"(no sample recorded)"}
	}
	ev := map[string]any{
		"property_id": prop,
		"tier":        tier,
		"seed":        seed,
		"level":       chk.Level,
		"coverage":    cov,
		"assumptions": chk.Assumptions,
		"wall_s":      time.Since(t0).Seconds(),
		"violations":  violated,
	}
	eb, _ := json.MarshalIndent(ev, "", " ")
	os.MkdirAll(filepath.Join(VerifDir(), "evidence"), 0o755)
	if err := os.WriteFile(filepath.Join(VerifDir(), "evidence", prop+".json"), eb, 0o644); err != nil {
		fmt.Println("BROKEN cannot write evidence:", err)
		return 2
	}
	fmt.Printf("%s %s seed=%d: cases=%d held=%d violated=%d inconclusive=%d known-matched=%d distinct-nontrivial=%d wall=%.1fs\n",
		prop, tier, seed, len(results), held, violated, inconclusive, knownMatched, len(distinct), time.Since(t0).Seconds())
	min := chk.MinConclusive
	if min == 0 {
		min = 1
	}
	if exit == 0 && (conclusive < min || len(distinct) < 2) {
		fmt.Printf("BROKEN %s observed too little (conclusive=%d, distinct non-trivial=%d)\n", prop, conclusive, len(distinct))
		return 2
	}
	return exit
}

func caseIdx(id string) int {
	i := strings.LastIndex(id, "-c")
	if i < 0 {
		return 0
	}
	n, _ := strconv.Atoi(id[i+2:])
	return n
}

// Replay re-executes one case in-process.
func Replay(path string) int {
	b, err := os.ReadFile(path)
	if err != nil {
		fmt.Println("cannot read replay:", err)
		return 2
	}
	var rp struct {
		Property string `json:"property"`
		Tier     string `json:"tier"`
		Seed     int64  `json:"seed"`
		Index    int    `json:"index"`
	}
	if err := json.Unmarshal(b, &rp); err != nil {
		fmt.Println("bad replay file:", err)
		return 2
	}
	chk := Registry[rp.Property]
	if chk == nil {
		fmt.Println("unknown property in replay")
		return 2
	}
	c := Ctx{Prop: rp.Property, Tier: rp.Tier, Seed: rp.Seed, Index: rp.Index, Total: chk.Cases(rp.Tier)}
	res := runGuarded(chk, c)
	ob, _ := json.MarshalIndent(res, "", " ")
	fmt.Println(string(ob))
	if res.Verdict == "violated" {
		fmt.Printf("VIOLATION property=%s replay=%s\n", rp.Property, path)
		return 1
	}
	return 0
}
