// Package fsck is an independent reader of every on-disk format of
// go-storethehash (it shares no parsing code with /repo) and the checker of
// the C07 consistency invariant.
package fsck

import (
	"bytes"
	"encoding/binary"
	"encoding/json"
	"errors"
	"fmt"
	"os"
	"sort"
	"strconv"
	"strings"
)

const D = uint32(1) << 31

type IdxHeader struct {
	Version         int
	BucketsBits     uint8
	MaxFileSize     uint32
	FirstFile       uint32
	PrimaryFileSize uint32
}

type PrimHeader struct {
	Version     int
	MaxFileSize uint32
	FirstFile   uint32
}

// Entry is one (location, stored prefix) of a record list.
type Entry struct {
	Off    uint64
	Size   uint32
	Prefix []byte
}

// IdxRec is one record of an index file.
type IdxRec struct {
	At       int64 // offset of the size prefix
	Size     uint32
	Deleted  bool
	Complete bool
	Bucket   uint32
	Entries  []Entry
	BadList  bool // entry list does not parse
}

type IdxFile struct {
	Num  uint32
	Data []byte
	Len  int64
	Recs []IdxRec
	Tail int64 // bytes after the last complete record
}

// PrimRec is one record of a primary file.
type PrimRec struct {
	At       int64
	Size     uint32
	Deleted  bool
	Complete bool
	Digest   []byte
	KeyLen   int
	Value    []byte
	BadKey   bool
}

type PrimFile struct {
	Num   uint32
	Data  []byte
	CID   bool
	Len   int64
	Recs  []PrimRec
	ByOff map[int64]int
	Tail  int64
}

type Block struct {
	Off  uint64
	Size uint32
}

type Layout struct {
	IndexPath, DataPath string
	CIDPrimary          bool

	HasIdxHeader bool
	IH           IdxHeader
	IdxFiles     map[uint32]*IdxFile
	Snapshot     []uint64 // nil when absent
	SnapshotLen  int64

	HasPrimHeader bool
	PH            PrimHeader
	PrimFiles     map[uint32]*PrimFile // CID primary: single file under key 0

	Free, FreeGC     []Block
	FreeTail, GCTail int
	HasGC            bool
}

func readU32(b []byte) uint32 { return binary.LittleEndian.Uint32(b) }
func readU64(b []byte) uint64 { return binary.LittleEndian.Uint64(b) }

func uvarint(b []byte) (uint64, int) {
	var x uint64
	var s uint
	for i, c := range b {
		if i == 10 {
			return 0, -1
		}
		if c < 0x80 {
			return x | uint64(c)<<s, i + 1
		}
		x |= uint64(c&0x7f) << s
		s += 7
	}
	return 0, -1
}

// ParseMultihash returns the digest and total encoded length.
func ParseMultihash(b []byte) (digest []byte, n int, err error) {
	_, n1 := uvarint(b)
	if n1 <= 0 {
		return nil, 0, errors.New("bad multihash code")
	}
	l, n2 := uvarint(b[n1:])
	if n2 <= 0 {
		return nil, 0, errors.New("bad multihash length")
	}
	end := n1 + n2 + int(l)
	if end > len(b) || int(l) < 0 {
		return nil, 0, errors.New("short multihash")
	}
	return b[n1+n2 : end], end, nil
}

// ParseCID returns the digest and total encoded length of a binary CID.
func ParseCID(b []byte) (digest []byte, n int, err error) {
	if len(b) >= 34 && b[0] == 0x12 && b[1] == 0x20 {
		return b[2:34], 34, nil
	}
	v, n1 := uvarint(b)
	if n1 <= 0 || v != 1 {
		return nil, 0, errors.New("bad cid version")
	}
	_, n2 := uvarint(b[n1:])
	if n2 <= 0 {
		return nil, 0, errors.New("bad cid codec")
	}
	d, n3, err := ParseMultihash(b[n1+n2:])
	if err != nil {
		return nil, 0, err
	}
	return d, n1 + n2 + n3, nil
}

func parseEntries(b []byte) ([]Entry, bool) {
	var out []Entry
	for len(b) > 0 {
		if len(b) < 13 {
			return out, false
		}
		kl := int(b[12])
		if len(b) < 13+kl {
			return out, false
		}
		out = append(out, Entry{Off: readU64(b), Size: readU32(b[8:]), Prefix: append([]byte(nil), b[13:13+kl]...)})
		b = b[13+kl:]
	}
	return out, true
}

func parseIdxFile(num uint32, data []byte) *IdxFile {
	f := &IdxFile{Num: num, Data: data, Len: int64(len(data))}
	var p int64
	n := int64(len(data))
	for p < n {
		if p+4 > n {
			break
		}
		sz := readU32(data[p:])
		r := IdxRec{At: p}
		if sz&D != 0 {
			r.Deleted = true
			r.Size = sz ^ D
			r.Complete = p+4+int64(r.Size) <= n
			f.Recs = append(f.Recs, r)
			if !r.Complete {
				break
			}
			p += 4 + int64(r.Size)
			continue
		}
		r.Size = sz
		if p+4+int64(sz) > n || sz < 4 {
			f.Recs = append(f.Recs, r)
			break
		}
		r.Complete = true
		body := data[p+4 : p+4+int64(sz)]
		r.Bucket = readU32(body)
		es, ok := parseEntries(body[4:])
		r.Entries = es
		r.BadList = !ok
		f.Recs = append(f.Recs, r)
		p += 4 + int64(sz)
	}
	f.Tail = n - p
	return f
}

func parsePrimFile(num uint32, data []byte, cidp bool) *PrimFile {
	f := &PrimFile{Num: num, Data: data, CID: cidp, Len: int64(len(data)), ByOff: map[int64]int{}}
	var p int64
	n := int64(len(data))
	for p < n {
		if p+4 > n {
			break
		}
		sz := readU32(data[p:])
		r := PrimRec{At: p}
		if sz&D != 0 {
			r.Deleted = true
			r.Size = sz ^ D
			r.Complete = p+4+int64(r.Size) <= n
			f.ByOff[p] = len(f.Recs)
			f.Recs = append(f.Recs, r)
			if !r.Complete {
				break
			}
			p += 4 + int64(r.Size)
			continue
		}
		r.Size = sz
		if p+4+int64(sz) > n {
			f.ByOff[p] = len(f.Recs)
			f.Recs = append(f.Recs, r)
			break
		}
		r.Complete = true
		body := data[p+4 : p+4+int64(sz)]
		var d []byte
		var kn int
		var err error
		if cidp {
			d, kn, err = ParseCID(body)
		} else {
			d, kn, err = ParseMultihash(body)
		}
		if err != nil {
			r.BadKey = true
		} else {
			r.Digest = append([]byte(nil), d...)
			r.KeyLen = kn
			r.Value = append([]byte(nil), body[kn:]...)
		}
		f.ByOff[p] = len(f.Recs)
		f.Recs = append(f.Recs, r)
		p += 4 + int64(sz)
	}
	f.Tail = n - p
	return f
}

// idxRecAt parses the index record whose size prefix is at offset p, independent of
// what precedes it in the file (the store reads records by position, too).
func idxRecAt(data []byte, p int64) (*IdxRec, bool) {
	n := int64(len(data))
	if p < 0 || p+4 > n {
		return nil, false
	}
	sz := readU32(data[p:])
	r := &IdxRec{At: p}
	if sz&D != 0 {
		r.Deleted = true
		r.Size = sz ^ D
		r.Complete = p+4+int64(r.Size) <= n
		return r, true
	}
	r.Size = sz
	if p+4+int64(sz) > n || sz < 4 {
		return r, true
	}
	r.Complete = true
	body := data[p+4 : p+4+int64(sz)]
	r.Bucket = readU32(body)
	es, ok := parseEntries(body[4:])
	r.Entries = es
	r.BadList = !ok
	return r, true
}

// primRecAt parses the primary record whose size prefix is at offset p.
func primRecAt(data []byte, p int64, cidp bool) (*PrimRec, bool) {
	n := int64(len(data))
	if p < 0 || p+4 > n {
		return nil, false
	}
	sz := readU32(data[p:])
	r := &PrimRec{At: p}
	if sz&D != 0 {
		r.Deleted = true
		r.Size = sz ^ D
		r.Complete = p+4+int64(r.Size) <= n
		return r, true
	}
	r.Size = sz
	if p+4+int64(sz) > n {
		return r, true
	}
	r.Complete = true
	body := data[p+4 : p+4+int64(sz)]
	var d []byte
	var kn int
	var err error
	if cidp {
		d, kn, err = ParseCID(body)
	} else {
		d, kn, err = ParseMultihash(body)
	}
	if err != nil {
		r.BadKey = true
	} else {
		r.Digest = append([]byte(nil), d...)
		r.KeyLen = kn
		r.Value = append([]byte(nil), body[kn:]...)
	}
	return r, true
}

func parseFree(data []byte) ([]Block, int) {
	var out []Block
	for len(data) >= 12 {
		out = append(out, Block{Off: readU64(data), Size: readU32(data[8:])})
		data = data[12:]
	}
	return out, len(data)
}

// numberedFiles lists "<base>.<n>" files.
func numberedFiles(base string) (map[uint32]string, error) {
	dir, name := splitPath(base)
	ents, err := os.ReadDir(dir)
	if err != nil {
		return nil, err
	}
	out := map[uint32]string{}
	for _, e := range ents {
		nm := e.Name()
		if !strings.HasPrefix(nm, name+".") {
			continue
		}
		suf := nm[len(name)+1:]
		n, err := strconv.ParseUint(suf, 10, 32)
		if err != nil {
			continue
		}
		out[uint32(n)] = dir + "/" + nm
	}
	return out, nil
}

func splitPath(p string) (string, string) {
	i := strings.LastIndexByte(p, '/')
	if i < 0 {
		return ".", p
	}
	return p[:i], p[i+1:]
}

// Load reads all files of a (closed or quiescent) store.
func Load(indexPath, dataPath string, cidPrimary bool) (*Layout, error) {
	l := &Layout{IndexPath: indexPath, DataPath: dataPath, CIDPrimary: cidPrimary, IdxFiles: map[uint32]*IdxFile{}, PrimFiles: map[uint32]*PrimFile{}}
	if b, err := os.ReadFile(indexPath + ".info"); err == nil {
		if err := json.Unmarshal(b, &l.IH); err != nil {
			return nil, fmt.Errorf("index header unparsable: %w", err)
		}
		l.HasIdxHeader = true
	} else if !os.IsNotExist(err) {
		return nil, err
	}
	files, err := numberedFiles(indexPath)
	if err != nil {
		return nil, err
	}
	for n, p := range files {
		b, err := os.ReadFile(p)
		if err != nil {
			return nil, err
		}
		l.IdxFiles[n] = parseIdxFile(n, b)
	}
	if b, err := os.ReadFile(indexPath + ".buckets"); err == nil {
		l.SnapshotLen = int64(len(b))
		l.Snapshot = make([]uint64, len(b)/8)
		for i := range l.Snapshot {
			l.Snapshot[i] = readU64(b[i*8:])
		}
	}
	if cidPrimary {
		if b, err := os.ReadFile(dataPath); err == nil {
			l.PrimFiles[0] = parsePrimFile(0, b, true)
		}
	} else {
		if b, err := os.ReadFile(dataPath + ".info"); err == nil {
			if err := json.Unmarshal(b, &l.PH); err != nil {
				return nil, fmt.Errorf("primary header unparsable: %w", err)
			}
			l.HasPrimHeader = true
		}
		pf, err := numberedFiles(dataPath)
		if err != nil {
			return nil, err
		}
		for n, p := range pf {
			b, err := os.ReadFile(p)
			if err != nil {
				return nil, err
			}
			l.PrimFiles[n] = parsePrimFile(n, b, false)
		}
	}
	if b, err := os.ReadFile(indexPath + ".free"); err == nil {
		l.Free, l.FreeTail = parseFree(b)
	}
	if b, err := os.ReadFile(indexPath + ".free.gc"); err == nil {
		l.HasGC = true
		l.FreeGC, l.GCTail = parseFree(b)
	}
	return l, nil
}

// NumBuckets returns 2^bits.
func (l *Layout) NumBuckets() int { return 1 << l.IH.BucketsBits }

// ReplayBuckets computes the bucket table a rescan from FirstFile would build.
func (l *Layout) ReplayBuckets() []uint64 {
	b := make([]uint64, l.NumBuckets())
	for n := l.IH.FirstFile; ; n++ {
		f, ok := l.IdxFiles[n]
		if !ok {
			break
		}
		for _, r := range f.Recs {
			if r.Deleted || !r.Complete {
				continue
			}
			if int(r.Bucket) < len(b) {
				b[r.Bucket] = uint64(n)*uint64(l.IH.MaxFileSize) + uint64(r.At) + 4
			}
		}
	}
	return b
}

// Problem is one violated clause of the C07 invariant.
type Problem struct {
	Clause string `json:"clause"`
	Detail string `json:"detail"`
}

func (p Problem) String() string { return p.Clause + ": " + p.Detail }

// Resolved is what a bucket table resolves to.
type Resolved struct {
	// Lists: bucket -> entries (nil for empty buckets)
	Lists map[uint32][]Entry
	// Content: digest -> (location, value), from entries whose primary record is good.
	Content map[string]Loc
}

type Loc struct {
	Off   uint64
	Size  uint32
	Value []byte
}

func (l *Layout) findIdxRec(pos uint64) (*IdxRec, uint32, string) {
	if pos < 4 {
		return nil, 0, "position < 4"
	}
	mfs := uint64(l.IH.MaxFileSize)
	if mfs == 0 {
		return nil, 0, "MaxFileSize 0"
	}
	fn := uint32((pos - 4) / mfs)
	local := int64(pos - uint64(fn)*mfs)
	f, ok := l.IdxFiles[fn]
	if !ok {
		return nil, fn, fmt.Sprintf("index file %d does not exist", fn)
	}
	if r, ok := idxRecAt(f.Data, local-4); ok {
		return r, fn, ""
	}
	return nil, fn, fmt.Sprintf("offset %d is outside index file %d (len %d)", local-4, fn, f.Len)
}

// PrimRecAt finds the primary record at an absolute location.
func (l *Layout) PrimRecAt(off uint64) (*PrimRec, uint32, string) {
	if l.CIDPrimary {
		f, ok := l.PrimFiles[0]
		if !ok {
			return nil, 0, "primary file missing"
		}
		if r, ok := primRecAt(f.Data, int64(off), true); ok {
			return r, 0, ""
		}
		return nil, 0, fmt.Sprintf("offset %d is outside the CID primary (len %d)", off, f.Len)
	}
	mfs := uint64(l.PH.MaxFileSize)
	if mfs == 0 {
		return nil, 0, "primary MaxFileSize 0"
	}
	fn := uint32(off / mfs)
	local := int64(off - uint64(fn)*mfs)
	f, ok := l.PrimFiles[fn]
	if !ok {
		return nil, fn, fmt.Sprintf("primary file %d does not exist", fn)
	}
	if r, ok := primRecAt(f.Data, local, false); ok {
		return r, fn, ""
	}
	return nil, fn, fmt.Sprintf("offset %d is outside primary file %d (len %d)", local, fn, f.Len)
}

func bucketOf(digest []byte, bits uint8) uint32 {
	if len(digest) < 4 {
		return 0xffffffff
	}
	return readU32(digest) & ((1 << bits) - 1)
}

// Check evaluates the C07 invariant on the given bucket table and returns the
// problems found together with what the table resolves to.
func (l *Layout) Check(buckets []uint64) ([]Problem, *Resolved) {
	var ps []Problem
	add := func(c, f string, a ...any) { ps = append(ps, Problem{c, fmt.Sprintf(f, a...)}) }
	res := &Resolved{Lists: map[uint32][]Entry{}, Content: map[string]Loc{}}
	if !l.HasIdxHeader {
		add("index-header", "index header missing")
		return ps, res
	}
	if len(buckets) != l.NumBuckets() {
		add("bucket-table", "table has %d buckets, header says %d bits", len(buckets), l.IH.BucketsBits)
		return ps, res
	}
	strip := int(l.IH.BucketsBits / 8)
	freeSet := map[Block]string{}
	for _, b := range l.Free {
		freeSet[b] = "freelist"
	}
	for _, b := range l.FreeGC {
		freeSet[b] = "freelist.gc"
	}
	locOwner := map[uint64]string{}
	minIdxFile := uint32(0xffffffff)
	minPrimFile := uint32(0xffffffff)
	for bi, pos := range buckets {
		if pos == 0 {
			continue
		}
		b := uint32(bi)
		rec, fn, why := l.findIdxRec(pos)
		if rec == nil {
			add("bucket-target", "bucket %d -> pos %d: %s", b, pos, why)
			continue
		}
		if fn < minIdxFile {
			minIdxFile = fn
		}
		if fn < l.IH.FirstFile {
			add("index-firstfile", "bucket %d refers to index file %d below header FirstFile %d", b, fn, l.IH.FirstFile)
		}
		if rec.Deleted {
			add("bucket-target", "bucket %d -> deleted record at file %d off %d", b, fn, rec.At)
			continue
		}
		if !rec.Complete {
			add("bucket-target", "bucket %d -> incomplete record at file %d off %d", b, fn, rec.At)
			continue
		}
		if rec.Bucket != b {
			add("bucket-tag", "bucket %d -> record tagged with bucket %d (file %d off %d)", b, rec.Bucket, fn, rec.At)
			continue
		}
		if rec.BadList {
			add("record-list", "bucket %d: entry list does not parse (file %d off %d)", b, fn, rec.At)
		}
		res.Lists[b] = rec.Entries
		for i, e := range rec.Entries {
			if i > 0 {
				prev := rec.Entries[i-1].Prefix
				if bytes.Compare(prev, e.Prefix) >= 0 {
					add("entries-sorted", "bucket %d: entry %d prefix %x not above previous %x", b, i, e.Prefix, prev)
				}
			}
			for j := 0; j < i; j++ {
				q := rec.Entries[j].Prefix
				if bytes.HasPrefix(e.Prefix, q) || bytes.HasPrefix(q, e.Prefix) {
					add("entries-prefix-free", "bucket %d: prefixes %x and %x", b, q, e.Prefix)
				}
			}
			if o, dup := locOwner[e.Off]; dup {
				add("entries-distinct-locations", "location %d named by bucket %d prefix %x and by %s", e.Off, b, e.Prefix, o)
			}
			locOwner[e.Off] = fmt.Sprintf("bucket %d prefix %x", b, e.Prefix)
			pr, pfn, why := l.PrimRecAt(e.Off)
			if pr == nil {
				add("entry-target", "bucket %d prefix %x -> location %d: %s", b, e.Prefix, e.Off, why)
				continue
			}
			if pfn < minPrimFile {
				minPrimFile = pfn
			}
			if !l.CIDPrimary && l.HasPrimHeader && pfn < l.PH.FirstFile {
				add("primary-firstfile", "entry refers to primary file %d below header FirstFile %d", pfn, l.PH.FirstFile)
			}
			if pr.Deleted {
				add("entry-target-deleted", "bucket %d prefix %x -> location %d is marked deleted", b, e.Prefix, e.Off)
				continue
			}
			if !pr.Complete {
				add("entry-target", "bucket %d prefix %x -> location %d incomplete record", b, e.Prefix, e.Off)
				continue
			}
			if pr.Size != e.Size {
				add("entry-size", "bucket %d prefix %x -> location %d size %d, entry says %d", b, e.Prefix, e.Off, pr.Size, e.Size)
			}
			if pr.BadKey {
				add("entry-key", "bucket %d prefix %x -> location %d key does not parse", b, e.Prefix, e.Off)
				continue
			}
			if bucketOf(pr.Digest, l.IH.BucketsBits) != b {
				add("entry-bucket-bits", "bucket %d prefix %x -> location %d digest %x is of bucket %d", b, e.Prefix, e.Off, pr.Digest, bucketOf(pr.Digest, l.IH.BucketsBits))
				continue
			}
			if len(pr.Digest) < strip || !bytes.HasPrefix(pr.Digest[strip:], e.Prefix) {
				add("entry-prefix", "bucket %d stored prefix %x is not a prefix of digest %x (stripped %d)", b, e.Prefix, pr.Digest, strip)
				continue
			}
			if where, ok := freeSet[Block{e.Off, e.Size}]; ok {
				add("live-on-freelist", "live location %d (size %d, digest %x) is on the %s", e.Off, e.Size, pr.Digest, where)
			}
			if _, dup := res.Content[string(pr.Digest)]; dup {
				add("digest-twice", "digest %x reachable through two entries", pr.Digest)
			}
			res.Content[string(pr.Digest)] = Loc{Off: e.Off, Size: e.Size, Value: pr.Value}
		}
	}
	return ps, res
}

// FileSet summarises which numbered files exist.
func sortedKeys[T any](m map[uint32]T) []uint32 {
	var ks []uint32
	for k := range m {
		ks = append(ks, k)
	}
	sort.Slice(ks, func(i, j int) bool { return ks[i] < ks[j] })
	return ks
}

func (l *Layout) IdxFileNums() []uint32  { return sortedKeys(l.IdxFiles) }
func (l *Layout) PrimFileNums() []uint32 { return sortedKeys(l.PrimFiles) }

// ListsEqual compares two resolved bucket tables entry by entry.
func ListsEqual(a, b *Resolved) (bool, string) {
	norm := func(r *Resolved) map[uint32][]Entry {
		m := map[uint32][]Entry{}
		for k, v := range r.Lists {
			if len(v) > 0 {
				m[k] = v
			}
		}
		return m
	}
	ma, mb := norm(a), norm(b)
	for k, va := range ma {
		vb, ok := mb[k]
		if !ok {
			return false, fmt.Sprintf("bucket %d has %d entries in one and none in the other", k, len(va))
		}
		if len(va) != len(vb) {
			return false, fmt.Sprintf("bucket %d has %d vs %d entries", k, len(va), len(vb))
		}
		for i := range va {
			if va[i].Off != vb[i].Off || va[i].Size != vb[i].Size || !bytes.Equal(va[i].Prefix, vb[i].Prefix) {
				return false, fmt.Sprintf("bucket %d entry %d differs: (%d,%d,%x) vs (%d,%d,%x)", k, i, va[i].Off, va[i].Size, va[i].Prefix, vb[i].Off, vb[i].Size, vb[i].Prefix)
			}
		}
	}
	for k, vb := range mb {
		if _, ok := ma[k]; !ok {
			return false, fmt.Sprintf("bucket %d has %d entries in one and none in the other", k, len(vb))
		}
	}
	return true, ""
}
