// Package legacy writes stores in the legacy on-disk formats (version-2
// single-file index, unversioned single-file multihash primary, freelist with
// pending entries) independently of /repo: it simulates a legacy store's life
// and emits the files such a store would have left.
package legacy

import (
	"bytes"
	"encoding/binary"
	"math/rand/v2"
	"os"
	"sort"

	"verif/harness/internal/gen"
)

type Store struct {
	Bits    uint8
	Primary []byte
	Index   []byte
	Free    []byte
	Want    map[string][]byte // digest -> value expected after the upgrade
	// what the generator did, for evidence
	Pending, PreDeleted, Leaked, Dangling, EmptyLists, Records, Lists int
	RecSizes                                                          []int
}

type ent struct {
	key  []byte // stripped key
	off  uint64
	size uint32
}

func lcp(a, b []byte) int {
	n := 0
	for n < len(a) && n < len(b) && a[n] == b[n] {
		n++
	}
	return n
}

// Generate simulates n operations over the universe.
func Generate(r *rand.Rand, u gen.Universe, bits uint8, n int) *Store {
	s := &Store{Bits: bits, Want: map[string][]byte{}}
	s.Index = append(s.Index, 2, 0, 0, 0, 2, bits)
	strip := int(bits / 8)
	type cur struct {
		off  uint64
		size uint32
	}
	live := map[string]cur{}
	buckets := map[uint32][]ent{}
	dirty := map[uint32]bool{}
	var vid uint64 = 1
	setDeleted := func(off uint64) {
		v := binary.LittleEndian.Uint32(s.Primary[off:])
		binary.LittleEndian.PutUint32(s.Primary[off:], v|1<<31)
	}
	supersede := func(c cur) {
		switch r.IntN(8) {
		case 0:
			s.Leaked++ // neither marked nor on the freelist: an orphan
		case 1, 2:
			setDeleted(c.off)
			s.PreDeleted++
		default:
			var e [12]byte
			binary.LittleEndian.PutUint64(e[:], c.off)
			binary.LittleEndian.PutUint32(e[8:], c.size)
			s.Free = append(s.Free, e[:]...)
			s.Pending++
		}
	}
	flush := func() {
		var bs []uint32
		for b := range dirty {
			bs = append(bs, b)
		}
		sort.Slice(bs, func(i, j int) bool { return bs[i] < bs[j] })
		r.Shuffle(len(bs), func(i, j int) { bs[i], bs[j] = bs[j], bs[i] })
		for _, b := range bs {
			es := buckets[b]
			var body []byte
			var bb [4]byte
			binary.LittleEndian.PutUint32(bb[:], b)
			body = append(body, bb[:]...)
			for i, e := range es {
				need := 0
				if i > 0 {
					need = lcp(es[i-1].key, e.key)
				}
				if i+1 < len(es) {
					if l := lcp(es[i+1].key, e.key); l > need {
						need = l
					}
				}
				pl := need + 1
				if pl > len(e.key) {
					pl = len(e.key)
				}
				if pl < len(e.key) && r.IntN(4) == 0 {
					pl += 1 + r.IntN(len(e.key)-pl) // longer than needed is legal
				}
				if pl > 255 && need+1 <= 255 {
					pl = 255 // the length is stored in one byte
				}
				var hdr [13]byte
				binary.LittleEndian.PutUint64(hdr[:], e.off)
				binary.LittleEndian.PutUint32(hdr[8:], e.size)
				hdr[12] = byte(pl)
				body = append(body, hdr[:]...)
				body = append(body, e.key[:pl]...)
			}
			if len(es) == 0 {
				s.EmptyLists++
			}
			var sz [4]byte
			binary.LittleEndian.PutUint32(sz[:], uint32(len(body)))
			s.Index = append(s.Index, sz[:]...)
			s.Index = append(s.Index, body...)
			s.Lists++
		}
		dirty = map[uint32]bool{}
	}
	for i := 0; i < n; i++ {
		k := u.Keys[r.IntN(len(u.Keys))]
		b := gen.Bucket(k.Digest, bits)
		sk := k.Digest[strip:]
		find := func() int {
			for j, e := range buckets[b] {
				if bytes.Equal(e.key, sk) {
					return j
				}
			}
			return -1
		}
		if r.IntN(4) == 0 {
			// remove
			if c, ok := live[string(k.Digest)]; ok {
				j := find()
				buckets[b] = append(buckets[b][:j:j], buckets[b][j+1:]...)
				delete(live, string(k.Digest))
				delete(s.Want, string(k.Digest))
				supersede(c)
				dirty[b] = true
			}
		} else {
			v := gen.Value(vid, gen.ValueLen(r, false))
			vid++
			off := uint64(len(s.Primary))
			size := uint32(len(k.Raw) + len(v))
			var sz [4]byte
			binary.LittleEndian.PutUint32(sz[:], size)
			s.Primary = append(s.Primary, sz[:]...)
			s.Primary = append(s.Primary, k.Raw...)
			s.Primary = append(s.Primary, v...)
			s.Records++
			s.RecSizes = append(s.RecSizes, int(size)+4)
			if c, ok := live[string(k.Digest)]; ok {
				j := find()
				buckets[b][j].off, buckets[b][j].size = off, size
				supersede(c)
			} else {
				es := append(buckets[b], ent{append([]byte{}, sk...), off, size})
				sort.Slice(es, func(x, y int) bool { return bytes.Compare(es[x].key, es[y].key) < 0 })
				buckets[b] = es
			}
			live[string(k.Digest)] = cur{off, size}
			s.Want[string(k.Digest)] = v
			dirty[b] = true
		}
		if r.IntN(5) == 0 {
			flush()
		}
	}
	flush()
	// dangling entries: the primary lost its tail (at a record boundary)
	if r.IntN(5) == 0 && s.Records > 3 {
		cut := 1 + r.IntN(3)
		end := uint64(len(s.Primary))
		for i := 0; i < cut && len(s.RecSizes) > 1; i++ {
			end -= uint64(s.RecSizes[len(s.RecSizes)-1])
			s.RecSizes = s.RecSizes[:len(s.RecSizes)-1]
		}
		s.Primary = s.Primary[:end]
		for d, c := range live {
			if c.off >= end {
				delete(s.Want, d)
				s.Dangling++
			}
		}
		// pending freelist entries beyond the end make no sense for a real store
		var keep []byte
		for p := 0; p+12 <= len(s.Free); p += 12 {
			if binary.LittleEndian.Uint64(s.Free[p:]) < end {
				keep = append(keep, s.Free[p:p+12]...)
			}
		}
		s.Free = keep
	}
	return s
}

// Write puts the legacy files at the given paths.
func (s *Store) Write(indexPath, dataPath string) error {
	if err := os.WriteFile(indexPath, s.Index, 0o644); err != nil {
		return err
	}
	if err := os.WriteFile(dataPath, s.Primary, 0o644); err != nil {
		return err
	}
	if len(s.Free) > 0 {
		return os.WriteFile(indexPath+".free", s.Free, 0o644)
	}
	return nil
}
