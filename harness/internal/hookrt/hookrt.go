// Package hookrt is the handler behind /repo's store/vhook points: it counts
// and logs events, injects delays, parks goroutines at gates and calls
// check-specific callbacks (crash imaging, synthetic deadlines).
package hookrt

import (
	"runtime"
	"strconv"
	"sync"
	"sync/atomic"
	"time"

	"github.com/ipld/go-storethehash/store/vhook"
)

// Clock is the one process-wide logical clock used for client call/return
// stamps and hook events alike.
var Clock atomic.Int64

func Tick() int64 { return Clock.Add(1) }

type Event struct {
	Seq  int64  `json:"seq"`
	G    int64  `json:"g"`
	Name string `json:"name"`
	V    any    `json:"v,omitempty"`
}

// Gate parks the goroutine that hits Hook for the Nth time (counting only
// hits accepted by Match) until Release is closed or Timeout expires.
type Gate struct {
	Hook    string
	Match   func(v any, goid int64) bool
	Nth     int
	Timeout time.Duration

	Arrived  chan struct{} // closed when the goroutine is parked
	Release  chan struct{} // close to let it continue
	hits     int
	done     bool
	TimedOut atomic.Bool
	ParkedG  atomic.Int64
	// OnArrive, when set, runs on the parked goroutine before it blocks.
	OnArrive func(v any)
}

func NewGate(hook string, nth int, timeout time.Duration) *Gate {
	return &Gate{Hook: hook, Nth: nth, Timeout: timeout, Arrived: make(chan struct{}), Release: make(chan struct{})}
}

// RT is one hook runtime; Install makes it the process's handler.
type RT struct {
	mu        sync.Mutex
	counts    map[string]int64
	events    []Event
	LogEvents bool
	NeedGoid  bool
	MaxEvents int
	gates     []*Gate
	cbs       []func(name string, v any, hit int64)
	// Delay returns how long to sleep at (name, hit); <0 means Gosched.
	Delay func(name string, hit int64, goid int64) time.Duration
	total atomic.Int64
}

func New() *RT {
	return &RT{counts: map[string]int64{}, MaxEvents: 200000}
}

func (rt *RT) Install()     { vhook.Set(rt.handle) }
func Uninstall()            { vhook.Set(nil) }
func (rt *RT) Total() int64 { return rt.total.Load() }

// OnHook registers a callback run (outside the runtime's lock) at every point.
func (rt *RT) OnHook(f func(name string, v any, hit int64)) {
	rt.mu.Lock()
	rt.cbs = append(rt.cbs, f)
	rt.mu.Unlock()
}

func (rt *RT) AddGate(g *Gate) {
	rt.mu.Lock()
	rt.gates = append(rt.gates, g)
	rt.mu.Unlock()
}

func (rt *RT) ClearGates() {
	rt.mu.Lock()
	rt.gates = nil
	rt.mu.Unlock()
}

func (rt *RT) Counts() map[string]int64 {
	rt.mu.Lock()
	defer rt.mu.Unlock()
	out := make(map[string]int64, len(rt.counts))
	for k, v := range rt.counts {
		out[k] = v
	}
	return out
}

func (rt *RT) Count(name string) int64 {
	rt.mu.Lock()
	defer rt.mu.Unlock()
	return rt.counts[name]
}

func (rt *RT) Events() []Event {
	rt.mu.Lock()
	defer rt.mu.Unlock()
	out := make([]Event, len(rt.events))
	copy(out, rt.events)
	return out
}

func (rt *RT) ResetEvents() {
	rt.mu.Lock()
	rt.events = rt.events[:0]
	rt.mu.Unlock()
}

// Goid returns the current goroutine's id.
func Goid() int64 {
	var buf [64]byte
	n := runtime.Stack(buf[:], false)
	// "goroutine 123 [running]:"
	s := buf[10:n]
	i := 0
	for i < len(s) && s[i] >= '0' && s[i] <= '9' {
		i++
	}
	id, _ := strconv.ParseInt(string(s[:i]), 10, 64)
	return id
}

func (rt *RT) handle(name string, v any) {
	rt.total.Add(1)
	var goid int64
	if rt.NeedGoid {
		goid = Goid()
	}
	rt.mu.Lock()
	rt.counts[name]++
	hit := rt.counts[name]
	if rt.LogEvents && len(rt.events) < rt.MaxEvents {
		ev := Event{Seq: Tick(), G: goid, Name: name}
		switch x := v.(type) {
		case nil:
		case uint32, int, int64, uint64, string:
			ev.V = x
		case []byte:
			ev.V = append([]byte(nil), x...)
		}
		rt.events = append(rt.events, ev)
	}
	var park *Gate
	for _, g := range rt.gates {
		if g.done || g.Hook != name {
			continue
		}
		if g.Match != nil && !g.Match(v, goid) {
			continue
		}
		g.hits++
		if g.hits == g.Nth {
			g.done = true
			park = g
			break
		}
	}
	cbs := rt.cbs
	delay := rt.Delay
	rt.mu.Unlock()

	for _, cb := range cbs {
		cb(name, v, hit)
	}
	if park != nil {
		park.ParkedG.Store(goid)
		if park.OnArrive != nil {
			park.OnArrive(v)
		}
		close(park.Arrived)
		t := time.NewTimer(park.Timeout)
		select {
		case <-park.Release:
		case <-t.C:
			park.TimedOut.Store(true)
		}
		t.Stop()
		return
	}
	if delay != nil {
		d := delay(name, hit, goid)
		if d < 0 {
			runtime.Gosched()
		} else if d > 0 {
			time.Sleep(d)
		}
	}
}

// WaitArrived waits until the gate parked a goroutine; false on timeout.
func (g *Gate) WaitArrived(d time.Duration) bool {
	t := time.NewTimer(d)
	defer t.Stop()
	select {
	case <-g.Arrived:
		return true
	case <-t.C:
		return false
	}
}

func (g *Gate) Open() {
	select {
	case <-g.Release:
	default:
		close(g.Release)
	}
}
