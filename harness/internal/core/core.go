// Package core holds the types shared by all checks: case results,
// violations, the store environment (directories + open) and small helpers.
package core

import (
	"context"
	"crypto/sha256"
	"encoding/hex"
	"fmt"
	"io/fs"
	"os"
	"path/filepath"
	"sort"
	"time"

	"github.com/ipld/go-storethehash/store"
	mhprimary "github.com/ipld/go-storethehash/store/primary/multihash"

	"verif/harness/internal/fsck"
	"verif/harness/internal/gen"
)

// Violation is one observed refutation of a property.
type Violation struct {
	Kind   string `json:"kind"`             // short class, e.g. "get-mismatch"
	Msg    string `json:"msg"`              // human explanation
	Step   int    `json:"step,omitempty"`   // op index where it was observed
	Sig    string `json:"sig,omitempty"`    // narrow signature matched against KNOWN_FINDINGS
	Detail any    `json:"detail,omitempty"` // witness data
}

// CaseResult is what a worker reports per case.
type CaseResult struct {
	ID         string           `json:"id"`
	Verdict    string           `json:"verdict"` // held | violated | inconclusive
	Violations []Violation      `json:"violations,omitempty"`
	Stats      map[string]int64 `json:"stats,omitempty"`
	Flags      []string         `json:"flags,omitempty"` // observed non-triviality flags
	NonTrivial bool             `json:"nontrivial"`
	Hash       string           `json:"hash"` // distinctness hash of the case as observed
	Sample     any              `json:"sample,omitempty"`
	Note       string           `json:"note,omitempty"`
	WallMS     int64            `json:"wall_ms"`
}

func (c *CaseResult) Add(stat string, n int64) {
	if c.Stats == nil {
		c.Stats = map[string]int64{}
	}
	c.Stats[stat] += n
}

func (c *CaseResult) Flag(f string) {
	for _, x := range c.Flags {
		if x == f {
			return
		}
	}
	c.Flags = append(c.Flags, f)
}

func (c *CaseResult) HasFlag(f string) bool {
	for _, x := range c.Flags {
		if x == f {
			return true
		}
	}
	return false
}

func (c *CaseResult) Violate(kind, sig string, step int, detail any, f string, a ...any) {
	if len(c.Violations) < 20 {
		c.Violations = append(c.Violations, Violation{Kind: kind, Sig: sig, Step: step, Msg: fmt.Sprintf(f, a...), Detail: detail})
	}
	c.Verdict = "violated"
}

// Env is one store location on disk.
type Env struct {
	Root      string // scratch directory of the case
	IndexPath string
	DataPath  string
	Cfg       gen.Config
}

func Scratch() string {
	if s := os.Getenv("VERIF_SCRATCH"); s != "" {
		return s
	}
	if st, err := os.Stat("/dev/shm"); err == nil && st.IsDir() {
		return "/dev/shm"
	}
	return os.TempDir()
}

func NewEnv(cfg gen.Config) (*Env, error) {
	root, err := os.MkdirTemp(Scratch(), "vchk-")
	if err != nil {
		return nil, err
	}
	return EnvAt(root, cfg)
}

func EnvAt(root string, cfg gen.Config) (*Env, error) {
	if err := os.MkdirAll(filepath.Join(root, "i"), 0o755); err != nil {
		return nil, err
	}
	if err := os.MkdirAll(filepath.Join(root, "d"), 0o755); err != nil {
		return nil, err
	}
	return &Env{Root: root, IndexPath: filepath.Join(root, "i", "sth.index"), DataPath: filepath.Join(root, "d", "sth.data"), Cfg: cfg}, nil
}

func (e *Env) Cleanup() { os.RemoveAll(e.Root) }

// Options returns the store options for the environment's configuration.
// Background activity is off unless extra options turn it on: the flusher is
// only started by Store.Start and collectors get a one hour interval so that
// they exist (MultihashPrimary.GC needs them) but never fire.
func (e *Env) Options(extra ...store.Option) []store.Option {
	o := []store.Option{
		store.IndexBitSize(e.Cfg.Bits),
		store.IndexFileSize(e.Cfg.IndexFileSize),
		store.PrimaryFileSize(e.Cfg.PrimaryFileSize),
		store.FileCacheSize(e.Cfg.FileCache),
		store.GCInterval(time.Hour),
		store.SyncInterval(time.Hour),
	}
	return append(o, extra...)
}

func (e *Env) Open(extra ...store.Option) (*store.Store, error) {
	return e.OpenCfg(e.Cfg, extra...)
}

func (e *Env) OpenCfg(cfg gen.Config, extra ...store.Option) (*store.Store, error) {
	save := e.Cfg
	e.Cfg = cfg
	opts := e.Options(extra...)
	e.Cfg = save
	return store.OpenStore(context.Background(), cfg.Primary, e.DataPath, e.IndexPath, cfg.Immutable, opts...)
}

func (e *Env) Fsck() (*fsck.Layout, error) {
	return fsck.Load(e.IndexPath, e.DataPath, e.Cfg.Primary == gen.CID)
}

// MH returns the multihash primary of a store, or nil.
func MH(s *store.Store) *mhprimary.MultihashPrimary {
	mp, _ := s.Primary().(*mhprimary.MultihashPrimary)
	return mp
}

// DirImage is a point-in-time copy of a directory tree: relative path -> content.
// Directories are recorded with a nil content and a trailing slash.
type DirImage map[string][]byte

func Snapshot(root string) (DirImage, error) {
	img := DirImage{}
	err := filepath.WalkDir(root, func(p string, d fs.DirEntry, err error) error {
		if err != nil {
			if os.IsNotExist(err) {
				return nil
			}
			return err
		}
		rel, _ := filepath.Rel(root, p)
		if rel == "." {
			return nil
		}
		if d.IsDir() {
			img[rel+"/"] = nil
			return nil
		}
		b, err := os.ReadFile(p)
		if err != nil {
			if os.IsNotExist(err) {
				return nil
			}
			return err
		}
		img[rel] = b
		return nil
	})
	return img, err
}

func (img DirImage) Clone() DirImage {
	c := make(DirImage, len(img))
	for k, v := range img {
		c[k] = v
	}
	return c
}

// Materialize writes the image into an empty directory.
func (img DirImage) Materialize(root string) error {
	keys := make([]string, 0, len(img))
	for k := range img {
		keys = append(keys, k)
	}
	sort.Strings(keys)
	for _, k := range keys {
		p := filepath.Join(root, k)
		if k[len(k)-1] == '/' {
			if err := os.MkdirAll(p, 0o755); err != nil {
				return err
			}
			continue
		}
		if err := os.MkdirAll(filepath.Dir(p), 0o755); err != nil {
			return err
		}
		if err := os.WriteFile(p, img[k], 0o644); err != nil {
			return err
		}
	}
	return nil
}

// Hash is a content hash of the image (names + bytes).
func (img DirImage) Hash() string {
	keys := make([]string, 0, len(img))
	for k := range img {
		keys = append(keys, k)
	}
	sort.Strings(keys)
	h := sha256.New()
	for _, k := range keys {
		fmt.Fprintf(h, "%s\x00%d\x00", k, len(img[k]))
		h.Write(img[k])
	}
	return hex.EncodeToString(h.Sum(nil)[:12])
}

// Listing describes an image as name:size pairs for witnesses.
func (img DirImage) Listing() []string {
	keys := make([]string, 0, len(img))
	for k := range img {
		keys = append(keys, k)
	}
	sort.Strings(keys)
	out := make([]string, 0, len(keys))
	for _, k := range keys {
		out = append(out, fmt.Sprintf("%s:%d", k, len(img[k])))
	}
	return out
}

func HashStrings(parts ...string) string {
	h := sha256.New()
	for _, p := range parts {
		h.Write([]byte(p))
		h.Write([]byte{0})
	}
	return hex.EncodeToString(h.Sum(nil)[:10])
}

// Protect runs f and converts a panic into an error string.
func Protect(f func()) (panicked any) {
	defer func() {
		if r := recover(); r != nil {
			panicked = r
		}
	}()
	f()
	return nil
}
