package checks

import (
	"fmt"
	"math/rand/v2"
	"os"
	"path/filepath"
	"sort"
	"strings"
	"time"

	"github.com/ipld/go-storethehash/store"

	"verif/harness/internal/conc"
	"verif/harness/internal/core"
	"verif/harness/internal/gen"
	"verif/harness/internal/hookrt"
	"verif/harness/internal/run"
)

// C05 / C06 / C16: concurrent explorations (race build).

func concConfig(r *rand.Rand, mhOnly, tiny bool) gen.Config {
	cfg := gen.Config{Primary: gen.MH, Bits: []uint8{8, 8, 9, 12}[r.IntN(4)]}
	if !mhOnly && r.IntN(3) == 0 {
		cfg.Primary = gen.CID
	}
	if tiny {
		cfg.IndexFileSize = []uint32{40, 100, 300}[r.IntN(3)]
		cfg.PrimaryFileSize = []uint32{40, 100, 300}[r.IntN(3)]
	} else {
		cfg.IndexFileSize = []uint32{100, 1024, 65536}[r.IntN(3)]
		cfg.PrimaryFileSize = []uint32{50, 300, 4096}[r.IntN(3)]
	}
	cfg.FileCache = []int{0, 1, 2, 512}[r.IntN(4)]
	return cfg
}

func depthHits(r *rand.Rand) map[string]bool {
	hooks := []string{"store.put.after-lookup", "store.put.after-primary", "store.put.after-update", "store.put.before-tick", "store.remove.after-lookup", "store.remove.after-index",
		"store.get.after-lookup", "store.has.after-lookup", "store.getsize.after-lookup", "index.get.after-unlock", "index.flush.swapped", "index.flush.before-write", "index.flush.written",
		"mh.flush.swapped", "mh.flush.before-write", "mh.get.after-cache", "store.commit.after-primary", "store.commit.after-index", "fl.flush.swapped",
		"mh.gc.relocate.read", "mh.gc.relocate.after-put", "mh.gc.freelist.before-mark", "mh.gc.reap.before-truncate", "index.gc.reap.before-busy", "index.gc.reap.after-busy", "index.gc.reap.before-mark", "index.gc.reap.before-truncate", "index.gc.before-remove", "fl.togc.renamed"}
	m := map[string]bool{}
	d := 1 + r.IntN(3)
	for i := 0; i < d; i++ {
		m[fmt.Sprintf("%s#%d", hooks[r.IntN(len(hooks))], 1+r.IntN(12))] = true
	}
	return m
}

type concCase struct {
	pl     conc.Plan
	classA bool
	depth  map[string]bool
	cons   *c13Cons // C13: store-level exactly-once oracle on the closed store
}

func genConcCase(c run.Ctx, prop string, withGC bool) concCase {
	r := gen.Rng(c.Seed, propStream(prop), uint64(c.Index))
	cfg := concConfig(r, withGC, withGC)
	cfg.Immutable = r.IntN(8) == 0
	classA := c.Index%2 == 0
	u := gen.MakeUniverse(r, cfg.Primary, 3+r.IntN(8))
	ncl := 4 + r.IntN(7)
	nops := 20 + r.IntN(41)
	pl := conc.Plan{Cfg: cfg, U: u, Seed: uint64(c.Seed)*1000003 + uint64(c.Index),
		Clients: conc.GenClients(r, ncl, len(u.Keys), nops, classA, true),
		Mode:    []string{"free", "noise", "depth"}[c.Index/2%3],
		Procs:   []int{2, 16, 4}[r.IntN(3)],
	}
	switch r.IntN(3) {
	case 0:
		pl.Flusher, pl.SyncInterval = true, time.Millisecond
	case 1:
		pl.FlushLoop = true
	default:
		pl.Flusher, pl.SyncInterval, pl.FlushLoop = true, time.Millisecond, true
	}
	if c.Index%4 == 1 {
		// fsync inside every commit (non-default): the Sync calls of index, primary and freelist take
		// part in the locking of the flush path
		pl.Extra = append(pl.Extra, store.SyncOnFlush(true))
	}
	cc := concCase{pl: pl, classA: classA}
	if pl.Mode == "depth" {
		cc.depth = depthHits(r)
	}
	if withGC {
		if r.IntN(3) == 0 {
			cc.pl.GCBackground = time.Duration(2+r.IntN(4)) * time.Millisecond
			if r.IntN(2) == 0 {
				cc.pl.GCTimeLimit = time.Millisecond
			}
		} else {
			cc.pl.GCPrimary = r.IntN(4) != 0
			cc.pl.GCIndex = !cc.pl.GCPrimary || r.IntN(3) != 0
		}
		cc.pl.CacheResize = r.IntN(2) == 0
		cc.pl.LowUse = [][]int{{1}, {50}, {85}, {1, 50, 85, 100}}[r.IntN(4)]
	}
	return cc
}

func planSample(c run.Ctx, cc concCase) map[string]any {
	pl := cc.pl
	var progs []string
	for i, p := range pl.Clients {
		if i >= 3 {
			progs = append(progs, fmt.Sprintf("... (%d clients)", len(pl.Clients)))
			break
		}
		var ops []string
		for j, o := range p {
			if j >= 12 {
				ops = append(ops, "...")
				break
			}
			ops = append(ops, o.String())
		}
		progs = append(progs, strings.Join(ops, " "))
	}
	return map[string]any{"case": c.ID(), "config": pl.Cfg, "universe": pl.U.Desc, "class": map[bool]string{true: "A (single writer per key)", false: "B (several writers per key)"}[cc.classA],
		"sync_on_flush": len(pl.Extra) > 0, "mode": pl.Mode, "gomaxprocs": pl.Procs, "flusher": pl.Flusher, "flush_loop": pl.FlushLoop, "gc_primary_loop": pl.GCPrimary, "gc_index_loop": pl.GCIndex, "gc_background": pl.GCBackground.String(), "cache_resize": pl.CacheResize, "programs": progs}
}

// runConc executes a concurrent case and applies the C05/C06 oracle.
func runConc(c run.Ctx, cc concCase, res *core.CaseResult, sigPrefix string, decideHistory bool) *conc.Outcome {
	env, err := core.NewEnv(cc.pl.Cfg)
	if err != nil {
		res.Verdict = "inconclusive"
		return nil
	}
	defer env.Cleanup()
	rt := hookrt.New()
	rt.LogEvents = true
	rt.NeedGoid = true
	rt.MaxEvents = 60000
	rt.Delay = conc.NoiseDelay(cc.pl.Seed, cc.pl.Mode, cc.depth)
	rt.Install()
	defer hookrt.Uninstall()
	if cc.cons != nil {
		cc.cons.install(rt, env)
	}
	out := conc.Run(env, cc.pl, rt, res)
	if out == nil {
		return nil
	}
	s := out.Store
	sub := res
	if !decideHistory {
		sub = &core.CaseResult{}
	}
	var finals []conc.Rec
	p := core.Protect(func() {
		// Store.Flush returns at once when another flush (the periodic flusher's) has already
		// taken the pools, so wait until no commit is in flight before and after flushing.
		waitNoCommitInFlight(rt)
		if err := s.Flush(); err != nil {
			sub.Violate("flush-error", sigPrefix+"final-flush-error", 0, nil, "Flush at quiescence failed: %v", err)
		}
		waitNoCommitInFlight(rt)
		finals = conc.FinalReads(cc.pl, s)
		// Close first: the periodic flusher and background collectors keep writing until then,
		// so only the closed directory is a quiescent state for fsck.
		if err := s.Close(); err != nil {
			sub.Violate("close-error", sigPrefix+"close-error", 0, nil, "Close after concurrent activity failed: %v", err)
		}
		if l, err := env.Fsck(); err == nil {
			var b []uint64
			if l.Snapshot != nil && len(l.Snapshot) == l.NumBuckets() {
				b = l.Snapshot
			} else {
				b = l.ReplayBuckets()
			}
			ps, _ := l.Check(b)
			res.Add("fsck_states_post_concurrency", 1)
			if len(ps) > 0 && os.Getenv("VERIF_KEEP") != "" {
				img, _ := core.Snapshot(env.Root)
				img.Materialize(os.Getenv("VERIF_KEEP"))
			}
			for i, pr := range ps {
				if i >= 3 {
					break
				}
				var lines []string
				rs := append([]conc.Rec{}, out.Recs...)
				sort.Slice(rs, func(i, j int) bool { return rs[i].Call < rs[j].Call })
				for _, r := range rs {
					if r.Op.Kind == "put" || r.Op.Kind == "rm" {
						lines = append(lines, fmt.Sprintf("[%d,%d] c%d %s -> rm=%v err=%s", r.Call, r.Ret, r.Client, r.Op, r.Rm, r.Err))
					}
				}
				sub.Violate("fsck", sigPrefix+"fsck-"+pr.Clause, 0, lines, "[post-concurrency, after Close] %s", pr)
			}
		}
		if cc.cons != nil {
			cc.cons.final(res, env, sigPrefix)
		}
	})
	if p != nil {
		sub.Violate("panic", sigPrefix+"panic-at-quiescence", 0, nil, "panic at quiescence: %v", p)
	}
	suffix := func(r conc.Rec) string {
		if !cc.classA {
			return "+classB"
		}
		return ""
	}
	cs := conc.Check(cc.pl, out.Recs, finals, sub, sigPrefix, suffix)
	res.Add("histories_checked", 1)
	res.Add("operations_recorded", int64(len(out.Recs)))
	res.Add("keys_ok", int64(cs.Ok))
	res.Add("keys_illegal", int64(cs.Illegal))
	res.Add("keys_unknown", int64(cs.Unknown))
	res.Add("keys_skipped_after_error", int64(cs.SkippedErr))
	res.Add("overlaps_same_bucket", int64(cs.OverlapSameBucket))
	res.Add("overlaps_same_key", int64(cs.OverlapSameKey))
	res.Add("explicit_flushes_during_run", out.FlushCalls)
	res.Add("gc_primary_cycles_during_run", out.GCPrimCycles)
	res.Add("gc_index_cycles_during_run", out.GCIdxCycles)
	cnt := rt.Counts()
	res.Add("flushes_with_work_during_run", cnt["store.flush.after-commit"])
	res.Add("records_relocated_during_run", cnt["mh.gc.relocate.after-put"])
	res.Add("primary_truncates_during_run", cnt["mh.gc.reap.before-truncate"])
	res.Add("primary_unlinks_during_run", cnt["mh.gc.before-remove"])
	res.Add("index_marks_during_run", cnt["index.gc.reap.before-mark"])
	res.Add("index_truncates_during_run", cnt["index.gc.reap.before-truncate"])
	res.Add("index_unlinks_during_run", cnt["index.gc.before-remove"]+cnt["index.gc.free.before-remove"])
	res.Add("freelist_handovers_during_run", cnt["fl.togc.renamed"])
	res.Add("hook_events_total", rt.Total())
	// GC hook events that fell inside some client call interval
	if len(out.Recs) > 0 {
		lo, hi := out.Recs[0].Call, out.Recs[0].Ret
		for _, r := range out.Recs {
			if r.Call < lo {
				lo = r.Call
			}
			if r.Ret > hi {
				hi = r.Ret
			}
		}
		var gcIn int64
		for _, e := range out.Events {
			if e.Seq >= lo && e.Seq <= hi && (strings.HasPrefix(e.Name, "mh.gc.") || strings.HasPrefix(e.Name, "index.gc.")) {
				gcIn++
			}
		}
		res.Add("gc_hook_events_inside_client_activity", gcIn)
	}
	if cs.Unknown > 0 && res.Verdict == "held" && decideHistory {
		res.Verdict = "inconclusive"
		res.Note = "porcupine timed out on some key"
	}
	res.Hash = conc.InterleavingHash(out.Events, out.Roles)
	res.Add("mode_"+cc.pl.Mode, 1)
	if cc.classA {
		res.Add("class_A_cases", 1)
	} else {
		res.Add("class_B_cases", 1)
	}
	res.NonTrivial = cs.OverlapSameBucket+cs.OverlapSameKey >= 2 && cnt["store.flush.after-commit"] > 0
	if c.Index < 2 || res.Verdict == "violated" {
		res.Sample = planSample(c, cc)
	}
	return out
}

func init() {
	run.Register(&run.Check{
		ID:    "C05",
		Level: "exploration",
		Race:  true,
		Cases: func(tier string) int { return tierN(tier, 2400, 40000) },
		Run: func(c run.Ctx) *core.CaseResult {
			res := &core.CaseResult{ID: c.ID(), Verdict: "held"}
			if c.Index%8 == 7 {
				return runGated(c, res, "C05")
			}
			runConc(c, genConcCase(c, "C05", false), res, "c05-", true)
			return res
		},
		CaseTimeout:      3 * time.Minute,
		HangInconclusive: true,
		Rule: "stress family: case = 4-10 client goroutines x 20-60 calls (Put/Get/Has/GetSize/Remove, unique values) over 3-10 keys concentrated in few buckets with shared stored prefixes, with the periodic flusher (1 ms) and/or an explicit flushing goroutine, GOMAXPROCS 2/4/16, SyncOnFlush(true) in a quarter of the cases, perturbation mode free / noise (hash-determined Gosched and 20us-5ms sleeps at hook points) / depth-d (1-3 chosen hook hits delayed 5-20 ms); class A (even case index): one writer per key, any readers; class B (odd): several writers per key. Every call is recorded at the API boundary with one atomic logical clock; oracle: no error but key-exists, per-key linearizability (porcupine, reference map model) including reads after quiescence, fsck at quiescence. Gated family (case index mod 8 == 7): scripted windows G1-G6 of DESIGN appendix C. " +
			"non-trivial iff >=2 operations of different clients on keys of one bucket overlapped in the logical clock AND a flush with work completed during the run; distinct = distinct hash of the ordered (role, hook) event sequence (first 256 events) = distinct interleavings observed",
		Assumptions: []string{
			"schedules are sampled by stress, noise and gates, not enumerated",
			"a porcupine timeout (60 s per key) is inconclusive",
		},
	})
	run.Register(&run.Check{
		ID:    "C06",
		Level: "exploration",
		Race:  true,
		Cases: func(tier string) int { return tierN(tier, 2400, 40000) },
		Run: func(c run.Ctx) *core.CaseResult {
			res := &core.CaseResult{ID: c.ID(), Verdict: "held"}
			if c.Index%8 == 7 {
				return runGated(c, res, "C06")
			}
			runConc(c, genConcCase(c, "C06", true), res, "c06-", true)
			return res
		},
		CaseTimeout:      3 * time.Minute,
		HangInconclusive: true,
		Rule: "as C05 on the multihash primary with file limits of 40-300 bytes, plus one goroutine looping primary GC cycles (thresholds 1/50/85/100) and one looping index GC cycles (scan-free alternating), or the background collectors (2-5 ms interval, with/without 1 ms time limit), and SetFileCacheSize toggled concurrently in half of the cases; same oracle (GC is invisible to the model). Gated family (index mod 8 == 7): windows G7-G11 of DESIGN appendix C. " +
			"non-trivial iff overlapping same-bucket operations AND a flush with work happened; GC activity inside client activity is reported (gc_hook_events_inside_client_activity, relocations/truncates/unlinks during the run); distinct = distinct interleaving hashes",
		Assumptions: []string{
			"harness-driven GC loops use one goroutine per collector and are never combined with the background collectors",
		},
	})
	run.Register(&run.Check{
		ID:               "C16",
		Level:            "exploration",
		Race:             true,
		RaceIsViolation:  true,
		Cases:            func(tier string) int { return tierN(tier, 1600, 30000) },
		Run:              runC16,
		CaseTimeout:      3 * time.Minute,
		HangInconclusive: true,
		Rule: "case = one dense concurrent run in the race build: clients (Put/Get/Has/GetSize/Remove) + started flusher and/or explicit Flush loop + StorageSize/IndexStorageSize/PrimaryStorageSize/FreelistStorageSize/Err callers + SetFileCacheSize + collectors (background at 2-5 ms, or one harness-driven goroutine per collector) + in a quarter of the cases the rate-limited writer path, with file limits small enough that index and primary roll files while collectors read the current-file numbers. Verdict = Go race detector reports (happens-before based) with a go-storethehash frame, deduplicated by the pair of first store frames; runtime fatal errors (concurrent map access) end the worker and are attributed to the case. One case in sixteen runs the error paths instead: a background flush fails (the primary file it has to roll over to already exists) while rate-limited writers register for flush notices, then Close. " +
			"non-trivial iff client operations overlapped and a flush with work and at least one GC cycle ran during the case; distinct = distinct interleaving hashes",
		Assumptions: []string{
			"only executed code paths and the happens-before relations of the observed executions",
			"store iteration concurrent with writes and two drivers of one collector are excluded (documented misuse)",
		},
	})
}

func runC16(c run.Ctx) *core.CaseResult {
	res := &core.CaseResult{ID: c.ID(), Verdict: "held"}
	switch c.Index % 16 {
	case 12:
		c16FailingFlush(c, res)
		return res
	case 13:
		// Close racing with background collectors and flusher (C17 family 1): only races are verdicts here
		sub := &core.CaseResult{ID: c.ID(), Verdict: "held"}
		c17CloseCase(c, sub, "", "")
		res.Stats, res.Hash, res.NonTrivial = sub.Stats, sub.Hash, sub.NonTrivial
		res.Add("c16_slice_close_during_activity", 1)
		return res
	case 14:
		sub := &core.CaseResult{ID: c.ID(), Verdict: "held"}
		dir, err := os.MkdirTemp(core.Scratch(), "vchk-fc16-")
		if err == nil {
			defer os.RemoveAll(dir)
			for i := 0; i < 3; i++ {
				os.WriteFile(filepath.Join(dir, string(rune('a'+i))), []byte{byte('a' + i), 1, 2, 3}, 0o644)
			}
			c14Concurrent(c, sub, dir, &c14Obs{states: map[string]bool{}})
		}
		res.Stats = sub.Stats
		res.Hash = core.HashStrings("fc", fmt.Sprint(c.Index))
		res.NonTrivial = true
		res.Add("c16_slice_filecache_concurrent", 1)
		return res
	}
	cc := genConcCase(c, "C16", true)
	r := gen.Rng(c.Seed, propStream("C16x"), uint64(c.Index))
	cc.pl.SizeQueries = true
	cc.pl.CacheResize = true
	cc.pl.Flusher, cc.pl.SyncInterval = true, time.Millisecond
	cc.pl.FlushLoop = r.IntN(2) == 0
	cc.pl.RateLimited = c.Index%4 == 3
	if cc.pl.RateLimited {
		cc.pl.FlushLoop = true // somebody must flush for waiting writers
	}
	cc.pl.Procs = []int{4, 16}[r.IntN(2)]
	out := runConc(c, cc, res, "c16-", false)
	if out != nil {
		res.NonTrivial = res.NonTrivial && (out.GCPrimCycles+out.GCIdxCycles > 0 || cc.pl.GCBackground > 0)
	}
	return res
}

var _ = hookrt.Tick

// waitNoCommitInFlight waits (bounded) until every commit that started has finished.
func waitNoCommitInFlight(rt *hookrt.RT) bool {
	for i := 0; i < 2000; i++ {
		c := rt.Counts()
		if c["store.flush.before-commit"] == c["store.flush.after-commit"] {
			return true
		}
		time.Sleep(2 * time.Millisecond)
	}
	return false
}
