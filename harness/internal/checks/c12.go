package checks

import (
	"context"
	"fmt"
	"os"
	"runtime/pprof"
	"strings"
	"sync"
	"time"

	"github.com/ipld/go-storethehash/store"

	"verif/harness/internal/core"
	"verif/harness/internal/gen"
	"verif/harness/internal/hookrt"
	"verif/harness/internal/run"
)

// C12: rate-limited writers are always released (no lost wake-up).
// Restated as bounded progress in flushes: a writer that registered for a
// notice is released by the first Flush that starts after the registration
// and completes. Decided by the state of the notice channel (handed to the
// monitor by the registered hook), never by wall-clock time.

var c12Scenarios = []string{
	"flush-between-decision-and-registration", // G12: single writer, no other traffic
	"flush-between-decision-and-registration-flusher-started",
	"two-writers-around-one-flush",              // G13
	"writer-registers-while-flush-after-commit", // G14
	"register-then-workless-flush",
	"write-lands-between-index-flush-and-sync",     // SyncOnFlush: a commit that is followed by index work before it syncs
	"writer-after-resumed-handover",                // a collector cycle picked up the hand-over file an interrupted cycle left
	"writer-after-collector-met-unreadable-header", // collector cycles that fail (header unreadable for a moment) must leave the flush path usable
	"stress",
}

func init() {
	run.Register(&run.Check{
		ID:              "C12",
		Level:           "exploration",
		Race:            true,
		Cases:           func(tier string) int { return tierN(tier, 600, 12000) },
		Run:             runC12,
		CaseTimeout:     2 * time.Minute,
		HangIsViolation: true,
		Rule: "store opened with BurstRate(1) and the measured flush rate forced to 1e-9 before every write (verif accessor), so every Put/Remove enters the waiting path. Gated scenarios park the writer at store.flushtick.decided / .registered / .before-block and the flusher at store.flush.after-commit and drive explicit Flush calls in each order (a flush completing between decision and registration followed only by work-less flushes - single writer with and without the started flusher; two writers around one flush; registration while a flush is between commit and notice close; registration followed by a work-less flush; with SyncOnFlush, a writer's index update landing while a commit is parked between its index flush and its syncs; a writer arriving after a collector cycle resumed the hand-over file that a cancelled cycle had left behind; a writer arriving after collector cycles that failed because the header files were unreadable for a moment); stress cases run 1-6 writers with the periodic flusher (1 ms - 1 h) and/or an explicit flushing goroutine under noise delays at the flushTick/Flush/commit hooks, half of them with the background collectors at 1-3 ms on 100-400 byte primary files, so that records of the writers' keys are relocated while the writers wait (half of those with a 50 us cycle time limit, so that cycles are cut short and resumed); a third of all cases open the store with SyncOnFlush(true). Oracle: every notice channel handed over by the registered hook must be closed when a Flush() that the harness started after that hook event has returned nil (non-blocking receive); at the end no client goroutine is parked in flushTick; a harness Flush that does not return within 30 s is reported with the goroutine profile (deadlocked flush path). " +
			"non-trivial iff >=1 write registered for a notice and a flush completed after it; distinct = scenario x observed order of (flushtick, flush) hook events",
		Assumptions: []string{
			"flush failures are not injected ('as long as flushes keep succeeding')",
			"gate expiry (window not attained) makes the scenario inconclusive, never a violation",
		},
	})
}

type noticeRec struct {
	ch  chan struct{}
	seq int64
}

func runC12(c run.Ctx) *core.CaseResult {
	res := &core.CaseResult{ID: c.ID(), Verdict: "held"}
	r := gen.Rng(c.Seed, propStream("C12"), uint64(c.Index))
	scen := c12Scenarios[c.Index%len(c12Scenarios)]
	cfg := gen.Config{Primary: gen.MH, Bits: 8, IndexFileSize: []uint32{100, 1024, gen.DefaultFileSize}[r.IntN(3)], PrimaryFileSize: []uint32{100, 4096, gen.DefaultFileSize}[r.IntN(3)], FileCache: 512}
	if scen == "stress" && c.Index%12 < 6 {
		cfg.PrimaryFileSize = []uint32{100, 200, 400}[r.IntN(3)]
		cfg.IndexFileSize = 100
	}
	if r.IntN(4) == 0 && scen != "writer-after-resumed-handover" && scen != "writer-after-collector-met-unreadable-header" {
		cfg.Primary = gen.CID
	}
	env, err := core.NewEnv(cfg)
	if err != nil {
		res.Verdict = "inconclusive"
		return res
	}
	defer env.Cleanup()
	rt := hookrt.New()
	rt.LogEvents = true
	rt.NeedGoid = true
	rt.Install()
	defer hookrt.Uninstall()
	var mu sync.Mutex
	var notices []noticeRec
	rt.OnHook(func(name string, v any, hit int64) {
		if name == "store.flushtick.registered" {
			if ch, ok := v.(chan struct{}); ok {
				mu.Lock()
				notices = append(notices, noticeRec{ch, hookrt.Tick()})
				mu.Unlock()
			}
		}
	})
	started := scen == "flush-between-decision-and-registration-flusher-started" || (scen == "stress" && r.IntN(3) != 0)
	sync_ := time.Hour
	if scen == "stress" && started {
		sync_ = []time.Duration{time.Millisecond, 5 * time.Millisecond, time.Hour}[r.IntN(3)]
	}
	opts := []store.Option{store.BurstRate(1), store.SyncInterval(sync_)}
	if c.Index%3 == 1 || scen == "write-lands-between-index-flush-and-sync" {
		// fsync inside every commit: the flush path the waiting writers depend on takes more locks
		opts = append(opts, store.SyncOnFlush(true))
		res.Flag("sync-on-flush")
		res.Add("cases_with_sync_on_flush", 1)
	}
	if scen == "writer-after-resumed-handover" {
		opts = append(opts, store.GCInterval(time.Hour)) // collector present, cycles driven by the scenario
	}
	if scen == "writer-after-collector-met-unreadable-header" {
		opts = append(opts, store.GCInterval(time.Millisecond))
	}
	withGC := scen == "stress" && cfg.Primary == gen.MH && c.Index%12 < 6
	if withGC {
		// collectors relocating records next to waiting writers (small files so that they have work)
		opts = append(opts, store.GCInterval(time.Duration(1+r.IntN(3))*time.Millisecond), store.PrimaryFileSize(cfg.PrimaryFileSize))
		if c.Index%24 < 3 {
			// cycles cut short by their time limit leave work behind (hand-over file, resume points)
			// that the next cycle has to pick up while writers wait
			opts = append(opts, store.GCTimeLimit(50*time.Microsecond))
			res.Flag("collectors-time-limited")
		}
		res.Flag("collectors-running")
	}
	s, err := env.Open(opts...)
	if err != nil {
		res.Violate("open-error", "c12-open-error", 0, nil, "open: %v", err)
		return res
	}
	if started {
		s.Start()
	}
	u := gen.MakeUniverse(r, cfg.Primary, 6)
	var vid uint64
	var vmu sync.Mutex
	write := func(k int) error {
		vmu.Lock()
		vid++
		id := vid
		vmu.Unlock()
		s.VerifSetFlushRate(1e-9)
		return s.Put(append([]byte{}, u.Keys[k%len(u.Keys)].Raw...), gen.Value(id, 40))
	}
	const gateT = 5 * time.Second
	inconclusive := func(why string) {
		if res.Verdict == "held" {
			res.Verdict = "inconclusive"
			res.Note = why
		}
	}
	hung := false
	flush := func() bool {
		if hung {
			return false
		}
		ferr := make(chan error, 1)
		go func() { ferr <- s.Flush() }()
		select {
		case err := <-ferr:
			if err != nil {
				res.Violate("flush-error", "c12-flush-error", 0, nil, "Flush failed: %v", err)
				return false
			}
		case <-time.After(30 * time.Second):
			// a Flush of a few hundred bytes that does not return is a deadlock in the flush path:
			// no writer waiting for its notice will ever be released
			hung = true
			var b strings.Builder
			pprof.Lookup("goroutine").WriteTo(&b, 1)
			res.Violate("flush-hang", "c12-flush-never-returns:"+scen, 0, firstLines(b.String(), 60), "Flush() did not return within 30 s: the flush path is deadlocked and waiting writers are never released")
			return false
		}
		res.Add("harness_flushes", 1)
		return true
	}
	// checkReleased: every notice registered before 'since' must be closed now
	checkReleased := func(what string) {
		if hung {
			return // already reported: no Flush completes any more
		}
		mu.Lock()
		ns := append([]noticeRec{}, notices...)
		mu.Unlock()
		for i, n := range ns {
			select {
			case <-n.ch:
				res.Add("notices_found_closed", 1)
			default:
				res.Violate("lost-wakeup", "c12-notice-open-after-flush:"+scen, 0, eventNames(rt, 60), "%s: the notice a writer registered (registration #%d) is still open after a Flush that started later returned nil - the writer is never woken", what, i)
			}
		}
	}
	var wg sync.WaitGroup
	writerDone := make(chan struct{})
	p := core.Protect(func() {
		switch scen {
		case "flush-between-decision-and-registration", "flush-between-decision-and-registration-flusher-started":
			g := hookrt.NewGate("store.flushtick.decided", 1, gateT)
			rt.AddGate(g)
			wg.Add(1)
			go func() { defer wg.Done(); write(0); close(writerDone) }()
			if !g.WaitArrived(gateT) {
				g.Open()
				inconclusive("writer did not reach the waiting decision")
				break
			}
			flush() // completes with the writer's work, before it registers
			g.Open()
			if !waitCount(rt, "store.flushtick.before-block", 1, gateT) {
				inconclusive("writer did not reach the block point")
				break
			}
			res.Flag("window-attained")
			// from now on only work-less flushes happen; each starts after the registration
			for i := 0; i < 3; i++ {
				flush()
			}
			checkReleased("single writer, flush completed between decision and registration")
		case "register-then-workless-flush":
			g := hookrt.NewGate("store.flushtick.before-block", 1, gateT)
			rt.AddGate(g)
			wg.Add(1)
			go func() { defer wg.Done(); write(0); close(writerDone) }()
			if !g.WaitArrived(gateT) {
				g.Open()
				inconclusive("writer did not reach the block point")
				break
			}
			flush() // has work: must close the notice
			checkReleased("flush with work after registration")
			res.Flag("window-attained")
			g.Open()
		case "two-writers-around-one-flush":
			ga := hookrt.NewGate("store.flushtick.before-block", 1, gateT)
			gb := hookrt.NewGate("store.flushtick.decided", 2, gateT)
			rt.AddGate(ga)
			rt.AddGate(gb)
			wg.Add(2)
			go func() { defer wg.Done(); write(0) }()
			if !ga.WaitArrived(gateT) {
				ga.Open()
				gb.Open()
				inconclusive("writer A did not register")
				break
			}
			go func() { defer wg.Done(); write(1); close(writerDone) }()
			if !gb.WaitArrived(gateT) {
				ga.Open()
				gb.Open()
				inconclusive("writer B did not reach the decision")
				break
			}
			flush() // A registered before, B decided but not registered
			ga.Open()
			gb.Open()
			if !waitCount(rt, "store.flushtick.before-block", 2, gateT) {
				inconclusive("writer B did not reach the block point")
				break
			}
			res.Flag("window-attained")
			for i := 0; i < 3; i++ {
				flush()
			}
			checkReleased("two writers registering around one flush")
		case "writer-registers-while-flush-after-commit":
			gf := hookrt.NewGate("store.flush.after-commit", 1, gateT)
			rt.AddGate(gf)
			// first some work for the flush to commit
			s.Put(append([]byte{}, u.Keys[len(u.Keys)-1].Raw...), gen.Value(999, 30))
			fdone := make(chan struct{})
			go func() { flush(); close(fdone) }()
			if !gf.WaitArrived(gateT) {
				gf.Open()
				inconclusive("flush did not reach after-commit")
				break
			}
			wg.Add(1)
			go func() { defer wg.Done(); write(0); close(writerDone) }()
			if !waitCount(rt, "store.flushtick.before-block", 1, gateT) {
				gf.Open()
				inconclusive("writer did not register while the flush was parked")
				break
			}
			res.Flag("window-attained")
			gf.Open() // this flush may or may not release the writer (its data came later) ...
			<-fdone
			for i := 0; i < 3; i++ {
				flush() // ... but the next completed one must
			}
			checkReleased("registration while a flush was between commit and notice close")
		case "writer-after-collector-met-unreadable-header":
			for i := 0; i < 4; i++ {
				s.VerifSetFlushRate(1e15)
				s.Put(append([]byte{}, u.Keys[i%len(u.Keys)].Raw...), gen.Value(uint64(900+i), 30))
			}
			flush()
			// the header files cannot be read for a few collector cycles (a transient fault), then they can again
			hdrs := []string{env.IndexPath + ".info", env.DataPath + ".info"}
			i0, p0 := rt.Count("index.gc.cycle.start"), rt.Count("mh.gc.cycle.start")
			for _, h := range hdrs {
				os.Rename(h, h+".away")
			}
			okI := waitCount(rt, "index.gc.cycle.start", i0+3, gateT)
			okP := waitCount(rt, "mh.gc.cycle.start", p0+3, gateT)
			for _, h := range hdrs {
				os.Rename(h+".away", h)
			}
			if !okI || !okP {
				inconclusive("the collectors did not run three cycles while the headers were away")
				break
			}
			res.Flag("window-attained")
			wg.Add(1)
			go func() { defer wg.Done(); write(0); close(writerDone) }()
			if !waitCount(rt, "store.flushtick.before-block", 1, gateT) {
				inconclusive("writer did not reach the block point")
				break
			}
			for i := 0; i < 3; i++ {
				flush()
			}
			checkReleased("writer after collector cycles that could not read their header")
		case "writer-after-resumed-handover":
			mp := core.MH(s)
			if mp == nil {
				inconclusive("no multihash primary")
				break
			}
			// some superseded records, flushed (with a huge measured flush rate these calls do not wait)
			for i := 0; i < 4; i++ {
				s.VerifSetFlushRate(1e15)
				s.Put(append([]byte{}, u.Keys[i%len(u.Keys)].Raw...), gen.Value(uint64(900+i), 30))
			}
			flush()
			for i := 0; i < 4; i++ {
				s.VerifSetFlushRate(1e15)
				s.Put(append([]byte{}, u.Keys[i%len(u.Keys)].Raw...), gen.Value(uint64(910+i), 31))
			}
			flush()
			// a cycle that is cancelled while it applies the hand-over file leaves that file behind ...
			cctx, cancel := context.WithCancel(context.Background())
			cancel()
			mp.GC(cctx, 50)
			if _, err := os.Stat(env.IndexPath + ".free.gc"); err != nil {
				inconclusive("the cancelled cycle left no hand-over file")
				break
			}
			// ... and the next cycle picks it up
			mp.GC(context.Background(), 50)
			res.Flag("window-attained")
			wg.Add(1)
			go func() { defer wg.Done(); write(0); close(writerDone) }()
			if !waitCount(rt, "store.flushtick.before-block", 1, gateT) {
				inconclusive("writer did not reach the block point")
				break
			}
			for i := 0; i < 3; i++ {
				flush()
			}
			checkReleased("writer after a collector cycle resumed a left-over hand-over file")
		case "write-lands-between-index-flush-and-sync":
			gf := hookrt.NewGate("store.commit.after-index", 1, gateT)
			rt.AddGate(gf)
			s.Put(append([]byte{}, u.Keys[len(u.Keys)-1].Raw...), gen.Value(999, 30)) // work for the commit (no rate measured yet: does not wait)
			fdone := make(chan struct{})
			go func() { flush(); close(fdone) }()
			if !gf.WaitArrived(gateT) {
				gf.Open()
				inconclusive("flush did not reach the point after the index flush")
				break
			}
			wg.Add(1)
			go func() { defer wg.Done(); write(0); close(writerDone) }()
			if !waitCount(rt, "store.flushtick.before-block", 1, gateT) {
				gf.Open()
				inconclusive("writer did not register while the commit was parked")
				break
			}
			res.Flag("window-attained")
			gf.Open()
			<-fdone
			for i := 0; i < 3; i++ {
				flush()
			}
			checkReleased("index work arriving between a commit's index flush and its syncs")
		default: // stress
			nw := 1 + r.IntN(6)
			rt.Delay = func(name string, hit int64, goid int64) time.Duration {
				if !strings.HasPrefix(name, "store.flushtick") && !strings.HasPrefix(name, "store.flush.") && !strings.HasPrefix(name, "store.commit.") && name != "store.run.flushnow" {
					return 0
				}
				h := uint64(c.Index)*7919 + uint64(hit)*104729 + uint64(len(name))*31
				h ^= h >> 7
				switch h % 10 {
				case 0:
					return time.Duration(50+h%900) * time.Microsecond
				case 1:
					return -1
				}
				return 0
			}
			stopF := make(chan struct{})
			var fw sync.WaitGroup
			if !started || r.IntN(2) == 0 {
				fw.Add(1)
				go func() {
					defer fw.Done()
					for {
						select {
						case <-stopF:
							return
						default:
						}
						s.Flush()
						time.Sleep(time.Duration(100+r.IntN(2000)) * time.Microsecond)
					}
				}()
				res.Flag("explicit-flush-loop")
			}
			for w := 0; w < nw; w++ {
				wg.Add(1)
				go func(w int) {
					defer wg.Done()
					for i := 0; i < 60; i++ {
						if i%7 == 6 {
							s.VerifSetFlushRate(1e-9)
							s.Remove(append([]byte{}, u.Keys[(w+i)%len(u.Keys)].Raw...))
						} else {
							write(w + i)
						}
					}
				}(w)
			}
			done := make(chan struct{})
			go func() { wg.Wait(); close(done) }()
			select {
			case <-done:
			case <-time.After(45 * time.Second):
				// progress watchdog only; the verdict comes from the channel check below
				res.Add("stress_watchdog_fired", 1)
			}
			close(stopF)
			fwDone := make(chan struct{})
			go func() { fw.Wait(); close(fwDone) }()
			select {
			case <-fwDone:
			case <-time.After(30 * time.Second):
				hung = true
				var b strings.Builder
				pprof.Lookup("goroutine").WriteTo(&b, 1)
				res.Violate("flush-hang", "c12-flush-never-returns:"+scen, 0, firstLines(b.String(), 60), "the flushing goroutine's Flush() did not return within 30 s: the flush path is deadlocked and waiting writers are never released")
			}
			rt.Delay = nil
			for i := 0; i < 3; i++ {
				flush()
			}
			checkReleased("stress: after three further completed flushes")
			res.Flag("window-attained")
			close(writerDone)
		}
	})
	if p != nil {
		res.Violate("panic", "c12-panic", 0, nil, "panic: %v", p)
	}
	// let released writers finish; a writer still parked in flushTick is reported from the goroutine profile
	fin := make(chan struct{})
	go func() { wg.Wait(); close(fin) }()
	select {
	case <-fin:
	case <-time.After(map[bool]time.Duration{true: time.Second, false: 10 * time.Second}[res.Verdict == "violated"]):
		if parked := parkedInFlushTick(); parked > 0 && res.Verdict != "violated" {
			// released channels but goroutines still parked would be a harness inconsistency; report as seen
			res.Violate("writer-parked", "c12-writer-parked:"+scen, 0, eventNames(rt, 60), "%d client goroutine(s) are still parked in flushTick after all their notices should have been closed", parked)
		}
	}
	mu.Lock()
	res.Add("registrations_observed", int64(len(notices)))
	nn := len(notices)
	mu.Unlock()
	cnt := rt.Counts()
	res.Add("writes_entering_wait_path", cnt["store.flushtick.decided"])
	res.Add("flushes_closing_or_checking_notice", cnt["store.flush.notice-closed"])
	res.Add("flushes_without_work", cnt["store.flush.no-work"])
	res.Add("scenario_"+scen, 1)
	if res.Verdict != "violated" && !hung {
		// only close the store when nobody can be stuck (Close does not wake waiters)
		core.Protect(func() { s.Close() })
	}
	res.Hash = core.HashStrings(scen, strings.Join(eventNames(rt, 40), ","))
	res.NonTrivial = nn > 0 && res.HasFlag("window-attained")
	if c.Index < len(c12Scenarios) || res.Verdict == "violated" {
		res.Sample = map[string]any{"case": c.ID(), "scenario": scen, "flusher_started": started, "sync_interval": sync_.String(), "registrations": nn, "events": eventNames(rt, 40)}
	}
	_ = writerDone
	return res
}

func waitCount(rt *hookrt.RT, hook string, n int64, d time.Duration) bool {
	deadline := time.Now().Add(d)
	for time.Now().Before(deadline) {
		if rt.Count(hook) >= n {
			return true
		}
		time.Sleep(200 * time.Microsecond)
	}
	return false
}

func eventNames(rt *hookrt.RT, n int) []string {
	var out []string
	for _, e := range rt.Events() {
		if strings.HasPrefix(e.Name, "store.flushtick") || strings.HasPrefix(e.Name, "store.flush.") || e.Name == "store.run.flushnow" {
			out = append(out, fmt.Sprintf("g%d:%s", e.G, e.Name))
			if len(out) >= n {
				break
			}
		}
	}
	return out
}

func parkedInFlushTick() int {
	var b strings.Builder
	pprof.Lookup("goroutine").WriteTo(&b, 2)
	n := 0
	for _, g := range strings.Split(b.String(), "\n\n") {
		if strings.Contains(g, "chan receive") && strings.Contains(g, "(*Store).flushTick") {
			n++
		}
	}
	return n
}
