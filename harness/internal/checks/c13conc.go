package checks

import (
	"bytes"
	"context"
	"fmt"
	"os"
	"sync"
	"time"

	"github.com/ipld/go-storethehash/store"

	"verif/harness/internal/conc"
	"verif/harness/internal/core"
	"verif/harness/internal/fsck"
	"verif/harness/internal/gen"
	"verif/harness/internal/hookrt"
	"verif/harness/internal/run"
)

// Store-level exactly-once oracle for concurrent executions (C13). The sequential
// monitor (seq/conserve.go) compares interval by interval; under concurrency there
// are no intervals, so this one decides on the closed store: every batch handed to GC
// is captured at the hand-over point, and after Close
//   - no location occurs twice in (captured batches + freelist file + hand-over file),
//   - no location the index treats as current occurs in it or carries the deleted bit,
//   - every complete, unmarked primary record that is not current occurs in it
//     (otherwise the location stopped being current - or never became current -
//     without being recorded: a leak nothing will ever reclaim).
type c13Cons struct {
	mu       sync.Mutex
	batches  [][]fsck.Block
	freePath string
}

func parse12(b []byte) []fsck.Block {
	var out []fsck.Block
	for len(b) >= 12 {
		var off uint64
		var sz uint32
		for i := 7; i >= 0; i-- {
			off = off<<8 | uint64(b[i])
		}
		for i := 11; i >= 8; i-- {
			sz = sz<<8 | uint32(b[i])
		}
		out = append(out, fsck.Block{Off: off, Size: sz})
		b = b[12:]
	}
	return out
}

func (cs *c13Cons) install(rt *hookrt.RT, env *core.Env) {
	cs.freePath = env.IndexPath + ".free"
	rt.OnHook(func(name string, v any, hit int64) {
		if name != "fl.togc.before-rename" {
			return
		}
		// the freelist's flush lock is held here and its writer was flushed and closed
		b, err := os.ReadFile(cs.freePath)
		if err != nil {
			return
		}
		cs.mu.Lock()
		cs.batches = append(cs.batches, parse12(b))
		cs.mu.Unlock()
	})
}

func sameBlocks(a, b []fsck.Block) bool {
	if len(a) != len(b) {
		return false
	}
	for i := range a {
		if a[i] != b[i] {
			return false
		}
	}
	return true
}

// final evaluates the oracle on the closed store.
func (cs *c13Cons) final(res *core.CaseResult, env *core.Env, sigp string) {
	l, err := env.Fsck()
	if err != nil || l.CIDPrimary {
		res.Add("c13_final_not_evaluated", 1)
		return
	}
	var b []uint64
	if l.Snapshot != nil && len(l.Snapshot) == l.NumBuckets() {
		b = l.Snapshot
	} else {
		b = l.ReplayBuckets()
	}
	ps, rs := l.Check(b)
	other := 0
	for _, p := range ps {
		switch p.Clause {
		case "live-on-freelist", "entry-target-deleted":
			res.Violate("current-location-freed", sigp+"c13-"+p.Clause, 0, nil, "[closed store after concurrent activity] %s", p)
		default:
			other++
		}
	}
	if other > 0 {
		// what is current cannot be told reliably; those problems are C06/C07's to report
		res.Add("c13_final_not_evaluated_fsck_problems", 1)
		return
	}
	cur := map[uint64]bool{}
	for _, loc := range rs.Content {
		cur[loc.Off] = true
	}
	cs.mu.Lock()
	batches := cs.batches
	cs.mu.Unlock()
	count := map[uint64]int{}
	var total int64
	for _, bt := range batches {
		for _, e := range bt {
			count[e.Off]++
			total++
		}
	}
	for _, e := range l.Free {
		count[e.Off]++
		total++
	}
	if l.HasGC && !(len(batches) > 0 && sameBlocks(batches[len(batches)-1], l.FreeGC)) {
		// a hand-over file that is not the last captured batch (left by an earlier process)
		for _, e := range l.FreeGC {
			count[e.Off]++
			total++
		}
	}
	nv := 0
	for off, n := range count {
		if n > 1 && nv < 3 {
			nv++
			res.Violate("freelist-duplicate", sigp+"c13-location-recorded-twice", 0, nil, "location %d was recorded on the freelist %d times (hand-over batches + freelist file)", off, n)
		}
	}
	mfs := uint64(l.PH.MaxFileSize)
	var examined, leaks int64
	for _, fn := range l.PrimFileNums() {
		f := l.PrimFiles[fn]
		for _, r := range f.Recs {
			if !r.Complete || r.Deleted || r.BadKey {
				continue
			}
			examined++
			abs := uint64(fn)*mfs + uint64(r.At)
			if cur[abs] || count[abs] > 0 {
				continue
			}
			leaks++
			if leaks <= 3 {
				res.Violate("freelist-missing", sigp+"c13-location-never-recorded", 0, nil, "primary record at location %d (file %d, digest %x) is not the current record of any key, is not marked deleted and was never recorded on the freelist: nothing will ever reclaim it", abs, fn, r.Digest)
			}
		}
	}
	res.Add("c13_final_evaluations", 1)
	res.Add("c13_final_freelist_entries_seen", total)
	res.Add("c13_final_handover_batches", int64(len(batches)))
	res.Add("c13_final_live_looking_records_examined", examined)
}

// relocSetup puts key k first into a primary file that then fills up with records which are
// removed again, and rolls the primary on, so that k's record is the only live one of a
// non-current file whose free share is far above any threshold.
func (g *gctx) relocSetup(k int) {
	var others []int
	for i := range g.u.Keys {
		if i != k {
			others = append(others, i)
		}
	}
	g.do(0, g.put(k, 20))
	mp := core.MH(g.s)
	n := 0
	for i := 0; i < 60 && mp != nil && mp.VerifFileNum() < 1; i++ {
		g.do(0, g.put(others[n%len(others)], 30+i%9))
		g.flush()
		n++
	}
	for _, o := range others {
		g.do(0, conc.COp{Kind: "rm", K: o})
	}
	g.flush()
	last := others[len(others)-1]
	for i := 0; i < 40 && mp != nil && mp.VerifFileNum() < 3; i++ {
		g.do(0, g.put(last, 60+i%7))
		g.flush()
	}
	g.flush()
}

func c13ParkedWriterVsRelocation(hook, kind string) func(g *gctx) {
	return func(g *gctx) {
		k := g.c.Index % len(g.u.Keys)
		g.relocSetup(k)
		mp := core.MH(g.s)
		if mp == nil {
			return
		}
		var mu sync.Mutex
		relocatedParkedKey := false
		g.rt.OnHook(func(name string, v any, hit int64) {
			if name == "mh.gc.relocate.read" {
				if ik, ok := v.([]byte); ok && bytes.Equal(ik, g.u.Keys[k].Digest) {
					mu.Lock()
					relocatedParkedKey = true
					mu.Unlock()
				}
			}
		})
		gt := g.gate(hook, 1)
		op := g.put(k, 27)
		if kind == "rm" {
			op = conc.COp{Kind: "rm", K: k}
		}
		pw := g.async(1, op)
		if !gt.WaitArrived(gT) {
			g.notAttained("writer did not park")
			gt.Open()
			return
		}
		done := make(chan struct{})
		go func() { mp.GC(context.Background(), 1); close(done) }()
		// with per-key serialization the collector's index update waits for the parked writer
		select {
		case <-done:
			g.res.Flag("gc-cycle-finished-while-writer-parked")
		case <-time.After(60 * time.Millisecond):
		}
		mu.Lock()
		if relocatedParkedKey {
			g.res.Flag("window-attained")
		}
		mu.Unlock()
		if !g.res.HasFlag("window-attained") {
			g.notAttained("the collector did not relocate the parked writer's key")
		}
		gt.Open()
		waitRec(pw, gT)
		<-done
		g.flush()
		mp.GC(context.Background(), 1)
		g.flush()
		g.do(2, conc.COp{Kind: "get", K: k})
	}
}

var gatedC13 = []gscen{
	{"G18-put-parked-after-reading-old-location-vs-relocation-of-its-key", c13ParkedWriterVsRelocation("store.put.after-primary", "put"),
		func(cfg *gen.Config) { cfg.PrimaryFileSize = 300 }},
	{"G19-remove-parked-after-lookup-vs-relocation-of-its-key", c13ParkedWriterVsRelocation("store.remove.after-lookup", "rm"),
		func(cfg *gen.Config) { cfg.PrimaryFileSize = 300 }},
	{"G18b-put-parked-after-lookup-vs-relocation-of-its-key", c13ParkedWriterVsRelocation("store.put.after-lookup", "put"),
		func(cfg *gen.Config) { cfg.PrimaryFileSize = 300 }},
	{"G20-close-while-background-collector-is-parked-inside-a-relocation", func(g *gctx) {
		k := g.c.Index % len(g.u.Keys)
		g.relocSetup(k)
		hook := []string{"mh.gc.relocate.after-put", "mh.gc.relocate.read", "mh.gc.relocate.after-update"}[(g.c.Index/8/4)%3]
		gt := g.gate(hook, 1)
		// background collectors (default low-use threshold): the cycle reaches k's file on its own
		if !g.reopen(store.GCInterval(time.Millisecond)) {
			gt.Open()
			return
		}
		if !gt.WaitArrived(gT) {
			g.notAttained("the background collector did not start a relocation")
			gt.Open()
			return
		}
		e0 := g.rt.Count("store.close.entry")
		done := make(chan error, 1)
		go func() { done <- g.s.Close() }()
		for i := 0; i < 2000 && g.rt.Count("store.close.entry") == e0; i++ {
			time.Sleep(100 * time.Microsecond)
		}
		time.Sleep(20 * time.Millisecond)
		g.res.Flag("window-attained")
		gt.Open()
		if err := <-done; err != nil {
			g.res.Violate("close-error", "c13-gated-close-error", 0, nil, "Close failed: %v", err)
		}
		// what a restart finds is what counts: reopen (no collectors), the runner closes again and evaluates the files
		s, err := g.env.Open()
		if err != nil {
			g.res.Violate("open-error", "gated-open-error", 0, nil, "reopen failed: %v", err)
			return
		}
		g.s = s
		g.do(2, conc.COp{Kind: "get", K: k})
	}, func(cfg *gen.Config) { cfg.PrimaryFileSize = 1500 }},
}

// runC13Gated runs one of the scripted writer x relocation windows with the store-level oracle.
func runC13Gated(c run.Ctx, j int) *core.CaseResult {
	res := &core.CaseResult{ID: c.ID(), Verdict: "held"}
	c2 := c
	c2.Index = j * 8
	runGated(c2, res, "C13")
	res.ID = c.ID()
	res.Add("c13_gated_cases", 1)
	return res
}

// runC13ConcStress: a C06-style concurrent run (clients + flusher + collectors) with the
// store-level oracle on the closed store; the history itself is decided by C06.
func runC13ConcStress(c run.Ctx, j int) *core.CaseResult {
	res := &core.CaseResult{ID: c.ID(), Verdict: "held"}
	cc := genConcCase(run.Ctx{Prop: "C13conc", Seed: c.Seed, Index: j, Tier: c.Tier}, "C13conc", true)
	cc.pl.Cfg.Primary = gen.MH
	cc.pl.Cfg.Immutable = false
	if j%2 == 0 && cc.pl.GCBackground == 0 {
		cc.pl.GCPrimary = true
		cc.pl.LowUse = []int{1, 50}
	}
	cc.cons = &c13Cons{}
	out := runConc(c, cc, res, "c13-conc-", false)
	res.Add("c13_concurrent_cases", 1)
	if out != nil {
		res.NonTrivial = res.Stats["c13_final_evaluations"] > 0 && res.Stats["c13_final_freelist_entries_seen"] >= 2
	}
	res.Hash = core.HashStrings("c13conc", fmt.Sprint(c.Index), res.Hash)
	return res
}

var _ = hookrt.Tick
