package checks

import (
	"bytes"
	"context"
	"fmt"
	"math/rand/v2"
	"os"
	"path/filepath"
	"sort"

	"github.com/ipld/go-storethehash/store/filecache"
	"github.com/ipld/go-storethehash/store/index"
	"github.com/ipld/go-storethehash/store/primary/inmemory"
	"github.com/ipld/go-storethehash/store/types"

	"verif/harness/internal/core"
	"verif/harness/internal/gen"
	"verif/harness/internal/run"
	"verif/harness/internal/seq"
)

// C08: prefix-compressed record lists, at the index.Index API with the
// in-memory primary. Bounded-exhaustive over a small alphabet plus random.

type iop struct {
	Kind byte // 'p' put, 'u' update, 'r' remove, 'f' flush
	K    int
}

func (o iop) String() string {
	if o.Kind == 'f' {
		return "flush"
	}
	return fmt.Sprintf("%c(k%d)", o.Kind, o.K)
}

const c08ExhKeys = 8

func c08ExhUniverse(bits uint8) [][]byte {
	// fixed bucket bytes + 3 symbols over {a,b}: every shared-prefix shape
	var keys [][]byte
	head := []byte{0x5a}
	if bits > 8 {
		head = []byte{0x5a, 0x13}
	}
	if bits > 16 {
		head = []byte{0x5a, 0x13, 0x77}
	}
	sym := []byte{0x10, 0x20}
	for i := 0; i < 8; i++ {
		k := append([]byte{}, head...)
		for j := 2; j >= 0; j-- {
			k = append(k, sym[(i>>j)&1])
		}
		for len(k) < 4 {
			k = append(k, 0x10)
		}
		keys = append(keys, k)
	}
	return keys
}

func c08L(tier string) int {
	if tier == "thorough" {
		return 6
	}
	return 5
}

// valid continuations given the set of present keys
func c08Next(present uint32, nkeys int) []iop {
	var out []iop
	for k := 0; k < nkeys; k++ {
		if present&(1<<k) == 0 {
			out = append(out, iop{'p', k})
		} else {
			out = append(out, iop{'u', k}, iop{'r', k})
		}
	}
	return append(out, iop{'f', 0})
}

func apply(present uint32, o iop) uint32 {
	switch o.Kind {
	case 'p':
		return present | 1<<o.K
	case 'r':
		return present &^ (1 << o.K)
	}
	return present
}

// c08Prefixes enumerates all valid length-2 prefixes (the sharding unit).
func c08Prefixes(nkeys int) [][]iop {
	var out [][]iop
	for _, a := range c08Next(0, nkeys) {
		p1 := apply(0, a)
		for _, b := range c08Next(p1, nkeys) {
			out = append(out, []iop{a, b})
		}
	}
	return out
}

const c08RandomQuick = 2000
const c08RandomThorough = 50000
const c08RandomPerCase = 50

func c08ExhConfigs(tier string) []uint8 {
	if tier == "thorough" {
		return []uint8{8, 12}
	}
	return []uint8{8}
}

func c08Cases(tier string) int {
	nk := c08ExhKeys
	if tier == "thorough" {
		nk = 6
	}
	n := len(c08Prefixes(nk)) * len(c08ExhConfigs(tier))
	if tier == "thorough" {
		return n + c08RandomThorough/c08RandomPerCase + c08StoreCases(tier)
	}
	return n + c08RandomQuick/c08RandomPerCase + c08StoreCases(tier)
}

func c08StoreCases(tier string) int { return tierN(tier, 64, 1200) }

// runC08Store: the same question asked through the real primaries. Index.Put fetches the previous
// entry's full key from the primary (GetIndexKey) when it has to lengthen stored prefixes, so the
// key encodings matter: multihashes with multi-byte codes and digests of 128 bytes and more
// (two-byte length varint), CIDv0/v1. All keys of a case fall in ONE bucket; lock-step reference map
// plus fsck's structural clauses (sorted, prefix-free, prefix of own key) after every flush.
func runC08Store(c run.Ctx, j int) *core.CaseResult {
	r := gen.Rng(c.Seed, propStream("C08store"), uint64(j))
	primary := gen.MH
	if r.IntN(3) == 0 {
		primary = gen.CID
	}
	bits := []uint8{8, 8, 12, 16}[r.IntN(4)]
	var group []gen.Key
	desc := ""
	for t := 0; t < 200 && len(group) < 4; t++ {
		u := gen.MakeUniverse(r, primary, 16+r.IntN(24))
		by := map[uint32][]gen.Key{}
		for _, k := range u.Keys {
			b := gen.Bucket(k.Digest, bits)
			by[b] = append(by[b], k)
		}
		var best uint32
		for b, ks := range by {
			if len(ks) > len(by[best]) || (len(ks) == len(by[best]) && b < best) {
				best = b
			}
		}
		group, desc = by[best], u.Desc
	}
	if len(group) > 14 {
		group = group[:14]
	}
	u := gen.Universe{Keys: group, Desc: "one bucket of (" + desc + ")"}
	cfg := gen.Config{Primary: primary, Bits: bits, IndexFileSize: []uint32{100, 1024, gen.DefaultFileSize}[r.IntN(3)], PrimaryFileSize: []uint32{300, 4096, gen.DefaultFileSize}[r.IntN(3)], FileCache: []int{0, 2, 512}[r.IntN(3)]}
	ops := seq.GenOps(r, seq.Profile{N: 60 + r.IntN(120), Keys: len(u.Keys), RemoveHeavy: true, Reopen: r.IntN(3) == 0, NoHuge: true})
	res := runSeq(c, seqCase{cfg, u, ops}, seq.Opts{FsckAtFlush: true}, func(res *core.CaseResult) bool {
		return res.Stats["fsck_states_flush"] >= 2 && len(u.Keys) >= 4
	})
	res.Add("store_level_sequences", 1)
	multi := 0
	for _, k := range u.Keys {
		if len(k.Raw)-len(k.Digest) > 2 {
			multi++
		}
	}
	res.Add("store_level_keys_with_multibyte_code_or_length", int64(multi))
	return res
}

func init() {
	run.Register(&run.Check{
		ID:    "C08",
		Level: "exploration",
		Cases: c08Cases,
		Run:   runC08,
		Rule: "exhaustive part: keys = fixed bucket bytes + 3 symbols over {0x10,0x20} (8 keys quick, 6 keys thorough: every shared-prefix shape), ALL valid sequences up to length L (quick 5, thorough 6) over {Put k (absent), Update k (present), Remove k (present), Flush}, each executed twice (as generated; with a Flush after every operation) against index.Index with the in-memory primary; after every operation every key is looked up and, where the bucket is flushed, the stored prefixes are read back through Index.NewIterator and checked (sorted, pairwise prefix-free, prefix of own key, other keys' entries untouched); the as-generated run ends with flush, close, removal of the saved bucket table and a rescanning reopen, after which every key is looked up again. One case = all extensions of one valid length-2 prefix. Random part: sequences of 50-300 operations over alphabets of 2-4 symbols, key length 4-12 after the bucket bytes, bits in {8,12,16,24}. Store-level part (last 64/1200 cases): the same question through the real multihash and CID primaries (whose GetIndexKey supplies the previous entry's full key): 4-14 keys of ONE bucket taken from the hostile universes (multi-byte hash codes, digests up to 200 bytes, CIDv0/v1), histories of 60-180 store calls with flushes and reopens against the reference map, with fsck's structural clauses after every flush. " +
			"non-trivial iff the case observed a stored prefix being lengthened (the previous-key branch), an insert between two entries, an update and a removal; distinct = hash of the set of final record lists seen",
		Assumptions: []string{
			"Update and Remove are only issued for present keys and Put only for absent keys (the store checks the full key first)",
			"the exhaustive bound is on sequence length and universe, not on the index code",
		},
		Exhaustive: func(string) bool { return true },
		Post: func(cov map[string]any, st map[string]int64, tier string) {
			cov["exhaustive_bound"] = fmt.Sprintf("all valid sequences of length <= %d over the %d-key universe, x2 flush variants, bits %v; plus %d random sequences (not exhaustive)", c08L(tier), map[bool]int{false: 8, true: 6}[tier == "thorough"], c08ExhConfigs(tier), st["random_sequences"])
			cov["sequences_run"] = st["sequences"]
			cov["distinct_final_record_lists"] = st["distinct_final_lists_in_case_sum"]
		},
	})
}

type idxEnv struct {
	dir  string
	idx  *index.Index
	prim *inmemory.InMemory
	bits uint8
	loc  map[int]types.Block // model: key -> location
	keys [][]byte
}

func newIdxEnv(keys [][]byte, bits uint8, fileSize uint32) (*idxEnv, error) {
	dir, err := os.MkdirTemp(core.Scratch(), "vchk-idx-")
	if err != nil {
		return nil, err
	}
	prim := inmemory.New([][2][]byte{})
	idx, err := index.Open(context.Background(), filepath.Join(dir, "t.index"), prim, bits, fileSize, 0, 0, filecache.New(8))
	if err != nil {
		os.RemoveAll(dir)
		return nil, err
	}
	return &idxEnv{dir: dir, idx: idx, prim: prim, bits: bits, loc: map[int]types.Block{}, keys: keys}, nil
}

func (e *idxEnv) close() {
	e.idx.Close()
	os.RemoveAll(e.dir)
}

type entryView struct {
	Prefix []byte
	Off    types.Position
}

// structure reads the flushed record lists through the iterator and checks
// the structural clauses; it returns key index -> entry for flushed keys.
func (e *idxEnv) structure(res *core.CaseResult, seqs string) (map[int]entryView, bool) {
	out := map[int]entryView{}
	it := e.idx.NewIterator()
	strip := int(e.bits / 8)
	type rec struct {
		prefix []byte
		off    types.Position
		bucket uint32
		full   []byte
	}
	var all []rec
	for {
		r, done, err := it.Next()
		if err != nil {
			res.Violate("iter-error", "c08-iter-error", 0, seqs, "index iterator failed: %v", err)
			return out, false
		}
		if done {
			break
		}
		full, _, err := e.prim.Get(r.Block)
		if err != nil {
			res.Violate("dangling", "c08-dangling-location", 0, seqs, "entry with prefix %x names location %d not in the primary", r.Key, r.Block.Offset)
			continue
		}
		all = append(all, rec{append([]byte{}, r.Key...), r.Block.Offset, gen.Bucket(full, e.bits), full})
	}
	ok := true
	byBucket := map[uint32][]rec{}
	for _, r := range all {
		byBucket[r.bucket] = append(byBucket[r.bucket], r)
	}
	for b, rs := range byBucket {
		for i, r := range rs {
			if len(r.full) < strip || !bytes.HasPrefix(r.full[strip:], r.prefix) {
				res.Violate("prefix-not-of-own-key", "c08-prefix-own-key", 0, seqs, "bucket %d: stored prefix %x is not a prefix of its own key %x", b, r.prefix, r.full)
				ok = false
			}
			if i > 0 && bytes.Compare(rs[i-1].prefix, r.prefix) >= 0 {
				res.Violate("unsorted", "c08-unsorted", 0, seqs, "bucket %d: prefixes %x, %x not sorted", b, rs[i-1].prefix, r.prefix)
				ok = false
			}
			for j := 0; j < i; j++ {
				if bytes.HasPrefix(r.prefix, rs[j].prefix) || bytes.HasPrefix(rs[j].prefix, r.prefix) {
					res.Violate("not-prefix-free", "c08-not-prefix-free", 0, seqs, "bucket %d: prefixes %x and %x", b, rs[j].prefix, r.prefix)
					ok = false
				}
			}
			for ki, k := range e.keys {
				if bytes.Equal(k, r.full) {
					out[ki] = entryView{r.prefix, r.off}
				}
			}
		}
	}
	return out, ok
}

// lookups checks the Get clauses for every key of the universe.
func (e *idxEnv) lookups(res *core.CaseResult, seqs string) {
	current := map[types.Position]int{}
	for k, b := range e.loc {
		current[b.Offset] = k
	}
	for ki, k := range e.keys {
		blk, found, err := e.idx.Get(k)
		if err != nil {
			res.Violate("get-error", "c08-get-error", 0, seqs, "Index.Get(%x) failed: %v", k, err)
			continue
		}
		want, present := e.loc[ki]
		if present {
			if !found {
				res.Violate("present-not-found", "c08-present-not-found", 0, seqs, "Index.Get(%x) of a present key found nothing", k)
			} else if blk.Offset != want.Offset {
				res.Violate("wrong-location", "c08-wrong-location", 0, seqs, "Index.Get(%x) = location %d, last associated location is %d", k, blk.Offset, want.Offset)
			}
		} else if found {
			if other, ok := current[blk.Offset]; !ok {
				res.Violate("stale-location", "c08-stale-location", 0, seqs, "Index.Get(%x) of an absent key returned location %d, which is not the current location of any present key", k, blk.Offset)
			} else if other == ki {
				res.Violate("stale-location", "c08-stale-location", 0, seqs, "absent key %x resolves to itself", k)
			}
		}
	}
}

type c08Obs struct {
	lengthened, between, updates, removes, rescans int64
	finals                                         map[string]bool
}

// runIdxSeq executes one sequence; flushEvery inserts a flush after each op.
func runIdxSeq(res *core.CaseResult, keys [][]byte, bits uint8, fileSize uint32, ops []iop, flushEvery bool, obs *c08Obs) {
	e, err := newIdxEnv(keys, bits, fileSize)
	if err != nil {
		res.Verdict = "inconclusive"
		res.Note = err.Error()
		return
	}
	defer e.close()
	seqs := fmt.Sprintf("bits=%d fs=%d flushEvery=%v %v", bits, fileSize, flushEvery, ops)
	var prevView map[int]entryView
	p := core.Protect(func() {
		for _, o := range ops {
			switch o.Kind {
			case 'p':
				blk, _ := e.prim.Put(keys[o.K], []byte{1})
				if err := e.idx.Put(keys[o.K], blk); err != nil {
					res.Violate("put-error", "c08-put-error", 0, seqs, "Index.Put(%x) failed: %v", keys[o.K], err)
				}
				e.loc[o.K] = blk
			case 'u':
				blk, _ := e.prim.Put(keys[o.K], []byte{2})
				if err := e.idx.Update(keys[o.K], blk); err != nil {
					res.Violate("update-error", "c08-update-error", 0, seqs, "Index.Update(%x) failed: %v", keys[o.K], err)
				}
				e.loc[o.K] = blk
				obs.updates++
			case 'r':
				rm, err := e.idx.Remove(keys[o.K])
				if err != nil || !rm {
					res.Violate("remove-error", "c08-remove-error", 0, seqs, "Index.Remove(%x) of a present key = %v, %v", keys[o.K], rm, err)
				}
				delete(e.loc, o.K)
				obs.removes++
			case 'f':
				if _, err := e.idx.Flush(); err != nil {
					res.Violate("flush-error", "c08-flush-error", 0, seqs, "Index.Flush failed: %v", err)
				}
			}
			flushed := o.Kind == 'f'
			if flushEvery && o.Kind != 'f' {
				if _, err := e.idx.Flush(); err != nil {
					res.Violate("flush-error", "c08-flush-error", 0, seqs, "Index.Flush failed: %v", err)
				}
				flushed = true
			}
			e.lookups(res, seqs)
			if flushed {
				view, _ := e.structure(res, seqs)
				// every present key must have an entry, no absent key may
				for ki := range e.loc {
					if _, ok := view[ki]; !ok {
						res.Violate("entry-missing", "c08-entry-missing", 0, seqs, "present key %x has no entry in its flushed record list", keys[ki])
					}
				}
				for ki, v := range view {
					if _, ok := e.loc[ki]; !ok {
						res.Violate("entry-stale", "c08-entry-stale", 0, seqs, "absent key %x still has an entry (prefix %x)", keys[ki], v.Prefix)
					}
				}
				if flushEvery && prevView != nil {
					// the operation may only touch the addressed key's entry, except that a
					// Put may lengthen the stored prefix of its predecessor
					for ki, pv := range prevView {
						nv, ok := view[ki]
						if !ok || ki == o.K {
							continue
						}
						if nv.Off != pv.Off {
							res.Violate("other-entry-touched", "c08-other-entry-location", 0, seqs, "%v changed the location of key %x from %d to %d", o, keys[ki], pv.Off, nv.Off)
						}
						if !bytes.Equal(nv.Prefix, pv.Prefix) {
							if o.Kind == 'p' && len(nv.Prefix) > len(pv.Prefix) && bytes.HasPrefix(nv.Prefix, pv.Prefix) {
								obs.lengthened++
							} else {
								res.Violate("other-entry-touched", "c08-other-entry-prefix", 0, seqs, "%v changed the stored prefix of key %x from %x to %x", o, keys[ki], pv.Prefix, nv.Prefix)
							}
						}
					}
					if o.Kind == 'p' {
						// inserted between two entries?
						var ps [][]byte
						for _, v := range view {
							ps = append(ps, v.Prefix)
						}
						sort.Slice(ps, func(i, j int) bool { return bytes.Compare(ps[i], ps[j]) < 0 })
						if nv, ok := view[o.K]; ok && len(ps) >= 3 && !bytes.Equal(ps[0], nv.Prefix) && !bytes.Equal(ps[len(ps)-1], nv.Prefix) {
							obs.between++
						}
					}
				}
				prevView = view
				if flushEvery || o.Kind == 'f' {
					var parts []string
					var kis []int
					for ki := range view {
						kis = append(kis, ki)
					}
					sort.Ints(kis)
					for _, ki := range kis {
						parts = append(parts, fmt.Sprintf("%d:%x", ki, view[ki].Prefix))
					}
					obs.finals[fmt.Sprint(parts)] = true
				}
			}
		}
	})
	if p != nil {
		res.Violate("panic", "c08-panic", 0, seqs, "index panicked: %v", p)
		return
	}
	if !flushEvery {
		// the same lookups must hold for an index rebuilt from its log alone: flush, close, drop
		// the saved bucket table, reopen (rescan)
		p = core.Protect(func() {
			if _, err := e.idx.Flush(); err != nil {
				return
			}
			e.idx.Close()
			os.Remove(filepath.Join(e.dir, "t.index.buckets"))
			idx, err := index.Open(context.Background(), filepath.Join(e.dir, "t.index"), e.prim, bits, fileSize, 0, 0, filecache.New(8))
			if err != nil {
				res.Violate("reopen-error", "c08-reopen-error", 0, seqs, "reopening the index by rescan failed: %v", err)
				return
			}
			e.idx = idx
			e.lookups(res, seqs+" [after rescan]")
			obs.rescans++
		})
		if p != nil {
			res.Violate("panic", "c08-panic-rescan", 0, seqs, "index panicked on rescan: %v", p)
		}
	}
}

func runC08(c run.Ctx) *core.CaseResult {
	res := &core.CaseResult{ID: c.ID(), Verdict: "held"}
	obs := &c08Obs{finals: map[string]bool{}}
	nk := c08ExhKeys
	if c.Tier == "thorough" {
		nk = 6
	}
	prefixes := c08Prefixes(nk)
	cfgs := c08ExhConfigs(c.Tier)
	nExh := len(prefixes) * len(cfgs)
	if c.Index < nExh {
		bits := cfgs[c.Index/len(prefixes)]
		pre := prefixes[c.Index%len(prefixes)]
		keys := c08ExhUniverse(bits)[:nk]
		L := c08L(c.Tier)
		var rec func(seq []iop, present uint32)
		count := int64(0)
		rec = func(seq []iop, present uint32) {
			if res.Verdict == "violated" && len(res.Violations) >= 5 {
				return
			}
			runIdxSeq(res, keys, bits, 1024, seq, false, obs)
			runIdxSeq(res, keys, bits, 1024, seq, true, obs)
			count += 2
			if len(seq) >= L {
				return
			}
			for _, o := range c08Next(present, nk) {
				if o.Kind == 'f' && len(seq) > 0 && seq[len(seq)-1].Kind == 'f' {
					continue // flush;flush adds nothing
				}
				rec(append(append([]iop{}, seq...), o), apply(present, o))
			}
		}
		present := uint32(0)
		for _, o := range pre {
			present = apply(present, o)
		}
		if c.Index%len(prefixes) == 0 {
			// the shorter sequences (length 0 and 1) are covered by the first case of each config
			for _, a := range c08Next(0, nk) {
				runIdxSeq(res, keys, bits, 1024, []iop{a}, false, obs)
				runIdxSeq(res, keys, bits, 1024, []iop{a}, true, obs)
				count += 2
			}
		}
		rec(pre, present)
		res.Add("sequences", count)
		res.Add("exhaustive_sequences", count)
		if c.Index < 2 {
			res.Sample = map[string]any{"case": c.ID(), "kind": "exhaustive", "bits": bits, "prefix": fmt.Sprint(pre), "keys": fmt.Sprintf("%x", keys), "sequences_run": count}
		}
	} else if j := c.Index - nExh - map[bool]int{true: c08RandomThorough, false: c08RandomQuick}[c.Tier == "thorough"]/c08RandomPerCase; j >= 0 {
		return runC08Store(c, j)
	} else {
		// random part
		r := gen.Rng(c.Seed, propStream("C08"), uint64(c.Index))
		for s := 0; s < c08RandomPerCase; s++ {
			bits := []uint8{8, 12, 16, 24}[r.IntN(4)]
			if bits == 24 && r.IntN(4) != 0 {
				bits = 16
			}
			keys := c08RandomKeys(r, bits)
			ops := c08RandomOps(r, len(keys))
			fs := []uint32{64, 256, 4096, 1 << 20}[r.IntN(4)]
			runIdxSeq(res, keys, bits, fs, ops, r.IntN(2) == 0, obs)
			res.Add("sequences", 1)
			res.Add("random_sequences", 1)
			if s == 0 && c.Index == nExh {
				res.Sample = map[string]any{"case": c.ID(), "kind": "random", "bits": bits, "keys": len(keys), "ops": fmt.Sprint(ops[:min(len(ops), 30)])}
			}
		}
	}
	res.Add("obs_prefix_lengthened", obs.lengthened)
	res.Add("obs_insert_between", obs.between)
	res.Add("obs_updates", obs.updates)
	res.Add("obs_removes", obs.removes)
	res.Add("rescan_reopens_probed", obs.rescans)
	res.Add("distinct_final_lists_in_case_sum", int64(len(obs.finals)))
	var fl []string
	for k := range obs.finals {
		fl = append(fl, k)
	}
	sort.Strings(fl)
	res.Hash = core.HashStrings(fl...)
	res.NonTrivial = obs.lengthened > 0 && obs.between > 0 && obs.updates > 0 && obs.removes > 0
	return res
}

func c08RandomKeys(r *rand.Rand, bits uint8) [][]byte {
	strip := int(bits+7) / 8
	head := make([]byte, strip)
	for i := range head {
		head[i] = byte(r.IntN(256))
	}
	asz := 2 + r.IntN(3)
	alpha := make([]byte, asz)
	for i := range alpha {
		alpha[i] = byte(16 * (i + 1 + r.IntN(3)*4)) // low nibble 0 keeps partial bucket bits equal
	}
	l := 4 + r.IntN(9)
	n := 3 + r.IntN(14)
	seen := map[string]bool{}
	var keys [][]byte
	for t := 0; len(keys) < n && t < 300; t++ {
		k := append([]byte{}, head...)
		if len(keys) > 0 && r.IntN(3) != 0 {
			base := keys[r.IntN(len(keys))]
			k = append([]byte{}, base...)
			p := strip + r.IntN(l)
			if r.IntN(2) == 0 {
				p = len(k) - 1 - r.IntN(min(3, l))
			}
			k[p] = alpha[r.IntN(asz)]
		} else {
			for i := 0; i < l; i++ {
				k = append(k, alpha[r.IntN(asz)])
			}
		}
		if len(k) < 4 || seen[string(k)] {
			continue
		}
		seen[string(k)] = true
		keys = append(keys, k)
	}
	return keys
}

func c08RandomOps(r *rand.Rand, nk int) []iop {
	n := 50 + r.IntN(251)
	present := map[int]bool{}
	var ops []iop
	for len(ops) < n {
		k := r.IntN(nk)
		x := r.IntN(10)
		switch {
		case x == 0:
			ops = append(ops, iop{'f', 0})
		case !present[k]:
			ops = append(ops, iop{'p', k})
			present[k] = true
		case x < 5:
			ops = append(ops, iop{'u', k})
		default:
			ops = append(ops, iop{'r', k})
			delete(present, k)
		}
	}
	return ops
}
