package checks

import (
	"context"
	"encoding/json"
	"fmt"
	"os"
	"sort"
	"strings"

	"github.com/ipld/go-storethehash/store"

	"verif/harness/internal/core"
	"verif/harness/internal/fsck"
	"verif/harness/internal/gen"
	"verif/harness/internal/hookrt"
	"verif/harness/internal/run"
	"verif/harness/internal/seq"
)

// C11: GC reclaims space in bounded cycles (bounded-progress restatement).

const (
	c11B1 = 4 // primary cycles to release a dead non-current primary file
	c11B2 = 4 // index cycles to release an unreferenced non-current index file
)

func init() {
	run.Register(&run.Check{
		ID:    "C11",
		Level: "exploration",
		Cases: func(tier string) int { return tierN(tier, 4000, 80000) },
		Run:   runC11,
		Rule: "case = (multihash configuration with file limits 50-1000 bytes, key universe, fill history that spreads records over several files, then a kill phase that removes/overwrites all keys of chosen non-current files, or all but a few (low-use scenario), followed by Flush and harness-driven GC cycles with a Flush after each; some cases start with cycles stopped midway by a synthetic deadline; in a quarter of the cases EVERY primary cycle is time-limited with a budget that expires while its first unvisited file is scanned, and the bounds grow by the number of non-current files). Oracle on directory listings, sizes, StorageSize and fsck's decoded layout: (a) every non-current primary file without live records is zero-length or unlinked within 4 primary cycles, and unlinked if it was the oldest file when visited; (b) every non-current index file no bucket refers into is zero-length or unlinked within 4 index cycles; (c) a primary file whose free share is >= threshold+10% is, within live+4 cycles, drained and released or shortened by truncation of its free tail until its free share is below that again; (d) a cycle that relocated nothing does not grow StorageSize, otherwise growth is bounded by the relocated records, their rewritten record lists and 24 bytes of freelist per record; (e) after the bounds one more primary+index cycle and Flush changes no file. Bulk variant (index mod 32 == 3): 450-700 (or 1100-1400) overwrites without a GC cycle in between, so one hand-over carries several hundred entries. Left-over variant (index mod 16 == 9): the temporary header files a crash between write and rename leaves (`*.info.tmp`) exist before the progress cycles. Pinned variant (index mod 8 == 6): a complete cycle visits every file before the kill phase and the first cycle after it is stopped by its budget while its freelist batch is being applied. Background family (index mod 16 == 15): the store's own collector goroutines (1 ms interval, with or without a cycle time limit that never expires) are stepped one cycle at a time by gates at their cycle-start points, with a Flush while both are parked; clauses (a)-(c) with the same bounds and the default 85% threshold. " +
			"non-trivial iff at least one dead or low-use file existed and was released; distinct = hash of (configuration, digests, operations, scenario)",
		Assumptions: []string{
			"progress is measured in harness-driven cycles with a Flush between cycles (the statement's 'change flushed')",
			"bounds B1=B2=4 and live+4 are generous upper bounds on the 1-2 cycles the code needs as read",
			"the low-use clause is only asserted with a 10% margin above the threshold because GC's own share computation includes merged size prefixes",
		},
	})
}

type dirState struct {
	files map[string]int64
	hash  string
}

func c11Dir(env *core.Env) dirState {
	img, _ := core.Snapshot(env.Root)
	ds := dirState{files: map[string]int64{}, hash: img.Hash()}
	for k, v := range img {
		ds.files[k] = int64(len(v))
	}
	return ds
}

func liveBuckets(s *store.Store) []uint64 {
	raw := s.Index().VerifBuckets()
	b := make([]uint64, len(raw))
	for i, p := range raw {
		b[i] = uint64(p)
	}
	return b
}

func primHeaderFirst(env *core.Env) uint32 {
	b, err := os.ReadFile(env.DataPath + ".info")
	if err != nil {
		return 0
	}
	var h struct{ FirstFile uint32 }
	json.Unmarshal(b, &h)
	return h.FirstFile
}

func runC11(c run.Ctx) *core.CaseResult {
	if c.Index%16 == 15 {
		return runC11Background(c)
	}
	res := &core.CaseResult{ID: c.ID(), Verdict: "held"}
	r := gen.Rng(c.Seed, propStream("C11"), uint64(c.Index))
	cfg := gen.Config{Primary: gen.MH, Bits: []uint8{8, 12, 16}[r.IntN(3)],
		IndexFileSize:   []uint32{40, 100, 300, 1024}[r.IntN(4)],
		PrimaryFileSize: []uint32{50, 100, 300, 1000}[r.IntN(4)],
		FileCache:       []int{0, 2, 512}[r.IntN(3)]}
	env, err := core.NewEnv(cfg)
	if err != nil {
		res.Verdict = "inconclusive"
		return res
	}
	defer env.Cleanup()
	rt := hookrt.New()
	rt.LogEvents = os.Getenv("VERIF_DEBUG") != ""
	rt.Install()
	defer hookrt.Uninstall()
	u := gen.MakeUniverse(r, cfg.Primary, 10+r.IntN(40))
	rn := seq.NewRunner(env, u, rt, res, seq.Opts{})
	if !rn.Open() {
		return res
	}
	defer rn.Finish()
	threshold := []int{1, 50, 74, 85, 100}[r.IntN(5)]
	scenario := []string{"kill-all-noncurrent", "kill-some-files", "low-use", "kill-all-keys", "nothing"}[r.IntN(5)]
	var trace []string
	step := 0
	do := func(o seq.Op) {
		rn.Exec(step, o)
		step++
		if len(trace) < 80 {
			trace = append(trace, o.String())
		}
	}
	// fill
	var vid uint64 = 1
	nfill := 20 + r.IntN(60)
	for i := 0; i < nfill; i++ {
		k := r.IntN(len(u.Keys))
		do(seq.Op{Kind: "put", K: k, VID: vid, VLen: 1 + r.IntN(90)})
		vid++
		if r.IntN(6) == 0 {
			do(seq.Op{Kind: "flush"})
		}
		if r.IntN(10) == 0 {
			do(seq.Op{Kind: "rm", K: r.IntN(len(u.Keys))})
		}
	}
	if c.Index%32 == 3 {
		// bulk variant: several hundred superseded records reach the collector in ONE hand-over
		// (buffer boundaries of the readers and writers of the freelist lie at 341 and 1024 entries)
		n := 450 + r.IntN(250)
		if c.Index%64 == 35 {
			n = 1100 + r.IntN(300)
		}
		for i := 0; i < n; i++ {
			do(seq.Op{Kind: "put", K: r.IntN(len(u.Keys)), VID: vid, VLen: 1 + r.IntN(12)})
			vid++
			if i%64 == 63 {
				do(seq.Op{Kind: "flush"})
			}
		}
		res.Add("cases_with_bulk_handover", 1)
	}
	do(seq.Op{Kind: "flush"})
	if res.Verdict == "violated" {
		return res
	}
	// pinned variant: every non-current file has been visited by a complete cycle before the kill
	// phase, and the first cycle after it is stopped by its budget while the freelist batch is being
	// applied (after the records were marked, before the cycle looked at any file)
	pinnedInterrupt := c.Index%8 == 6
	if pinnedInterrupt {
		// (same threshold as later: a file that is low-use already now is drained from here on)
		do(seq.Op{Kind: "gcp", A: threshold})
		do(seq.Op{Kind: "flush"})
	}
	layout := func() (*fsck.Layout, *fsck.Resolved) {
		l, err := env.Fsck()
		if err != nil {
			res.Violate("fsck", "c11-fsck-load", step, nil, "fsck load: %v", err)
			return nil, nil
		}
		_, rs := l.Check(liveBuckets(rn.S))
		return l, rs
	}
	l0, r0 := layout()
	if l0 == nil {
		return res
	}
	mp := core.MH(rn.S)
	curPrim := mp.VerifFileNum()
	pmfs := uint64(cfg.PrimaryFileSize)
	keyIdx := map[string]int{}
	for i, k := range u.Keys {
		keyIdx[string(k.Digest)] = i
	}
	// keys by primary file
	byFile := map[uint32][]int{}
	for d, loc := range r0.Content {
		byFile[uint32(loc.Off/pmfs)] = append(byFile[uint32(loc.Off/pmfs)], keyIdx[d])
	}
	var nonCur []uint32
	for _, f := range l0.PrimFileNums() {
		if f < curPrim {
			nonCur = append(nonCur, f)
		}
	}
	kill := func(k int) {
		if r.IntN(2) == 0 {
			do(seq.Op{Kind: "rm", K: k})
		} else {
			do(seq.Op{Kind: "put", K: k, VID: vid, VLen: 1 + r.IntN(60)})
			vid++
		}
	}
	switch scenario {
	case "kill-all-noncurrent":
		for _, f := range nonCur {
			ks := byFile[f]
			sort.Ints(ks)
			for _, k := range ks {
				kill(k)
			}
		}
	case "kill-some-files":
		for _, f := range nonCur {
			if r.IntN(2) == 0 {
				ks := byFile[f]
				sort.Ints(ks)
				for _, k := range ks {
					kill(k)
				}
			}
		}
	case "low-use":
		for _, f := range nonCur {
			ks := byFile[f]
			sort.Ints(ks)
			keep := 1 + r.IntN(2)
			for i, k := range ks {
				if i >= keep {
					kill(k)
				}
			}
		}
	case "kill-all-keys":
		for k := range u.Keys {
			do(seq.Op{Kind: "rm", K: k})
		}
	}
	do(seq.Op{Kind: "flush"})
	res.Add("scenario_"+scenario, 1)
	if res.Verdict == "violated" {
		return res
	}

	// state after the kill phase
	l1, r1 := layout()
	if l1 == nil {
		return res
	}
	curPrim = mp.VerifFileNum()
	curIdx := rn.S.Index().VerifFileNum()
	liveIn := map[uint32]int{}
	busyBytes := map[uint32]int64{}
	for _, loc := range r1.Content {
		f := uint32(loc.Off / pmfs)
		liveIn[f]++
		busyBytes[f] += int64(loc.Size)
	}
	var deadPrim, lowUse []uint32
	liveTotal := 0
	for _, f := range l1.PrimFileNums() {
		if f >= curPrim {
			continue
		}
		pf := l1.PrimFiles[f]
		if pf.Len == 0 {
			continue
		}
		if liveIn[f] == 0 {
			deadPrim = append(deadPrim, f)
			continue
		}
		var all int64
		for _, rec := range pf.Recs {
			all += int64(rec.Size)
		}
		free := all - busyBytes[f]
		if 100*free >= int64(threshold+10)*all && threshold+10 <= 100 {
			lowUse = append(lowUse, f)
			liveTotal += liveIn[f]
		}
	}
	refIdx := map[uint32]bool{}
	imfs := uint64(cfg.IndexFileSize)
	for _, p := range liveBuckets(rn.S) {
		if p != 0 {
			refIdx[uint32((p-4)/imfs)] = true
		}
	}
	var deadIdx []uint32
	for _, f := range l1.IdxFileNums() {
		if f < curIdx && !refIdx[f] && l1.IdxFiles[f].Len > 0 {
			deadIdx = append(deadIdx, f)
		}
	}
	res.Add("dead_primary_files", int64(len(deadPrim)))
	res.Add("lowuse_primary_files", int64(len(lowUse)))
	res.Add("dead_index_files", int64(len(deadIdx)))

	if os.Getenv("VERIF_DEBUG") != "" {
		rt.OnHook(func(name string, v any, hit int64) {
			if name == "mh.gc.freelist.before-mark" || name == "mh.gc.file.start" || name == "mh.gc.cycle.start" || name == "mh.gc.relocate.read" {
				fmt.Fprintf(os.Stderr, "DBG %s %v\n", name, v)
			}
		})
		fmt.Fprintf(os.Stderr, "DBG --- kill phase done; deadPrim=%v lowUse=%v pmfs=%d threshold=%d\n", deadPrim, lowUse, pmfs, threshold)
	}
	if pinnedInterrupt {
		m0 := rt.Count("mh.gc.freelist.before-mark")
		do(seq.Op{Kind: "gcp", A: threshold, B: 2001 + r.IntN(3)})
		do(seq.Op{Kind: "flush"})
		res.Add("cases_with_cycle_interrupted_inside_freelist_batch", 1)
		if rt.Count("mh.gc.freelist.before-mark") > m0 {
			res.Add("cycles_interrupted_after_marking", 1)
		}
	}
	// optional: cycles stopped midway first (they must not prevent later progress)
	if r.IntN(4) == 0 {
		for i := 0; i < 1+r.IntN(2); i++ {
			do(seq.Op{Kind: "gcp", A: threshold, B: 1 + r.IntN(8)})
			do(seq.Op{Kind: "flush"})
			do(seq.Op{Kind: "gci", A: r.IntN(2), B: 1 + r.IntN(8)})
			do(seq.Op{Kind: "flush"})
		}
		res.Add("cases_with_interrupted_cycles", 1)
	}

	if os.Getenv("VERIF_DEBUG") != "" {
		var names []string
		for _, e := range rt.Events() {
			if strings.HasPrefix(e.Name, "mh.gc.") || strings.HasPrefix(e.Name, "store.flush.after") {
				names = append(names, fmt.Sprintf("%s(%v)", e.Name[3:], e.V))
			}
		}
		fmt.Fprintf(os.Stderr, "trace tail: %v\nlast ops: %v\n", names[max(0, len(names)-80):], trace[max(0, len(trace)-12):])
	}
	if c.Index%16 == 9 {
		// a process that died between writing a header's temporary file and renaming it leaves that file
		// behind; an earlier incarnation of this store may have done so. Reclaiming must go on regardless.
		for _, pth := range []string{env.DataPath + ".info", env.IndexPath + ".info"} {
			if b, err := os.ReadFile(pth); err == nil {
				os.WriteFile(pth+".tmp", b, 0o644)
			}
		}
		res.Add("cases_with_left_over_header_temp_files", 1)
	}
	// visit log: (file, header FirstFile at visit)
	type visit struct{ file, first uint32 }
	var visits []visit
	rt.OnHook(func(name string, v any, hit int64) {
		if name == "mh.gc.file.start" {
			if fn, ok := v.(uint32); ok {
				visits = append(visits, visit{fn, primHeaderFirst(env)})
			}
		}
	})

	released := func(ds dirState, base string, f uint32) bool {
		sz, ok := ds.files[fmt.Sprintf("%s.%d", base, f)]
		return !ok || sz == 0
	}
	exists := func(ds dirState, base string, f uint32) bool {
		_, ok := ds.files[fmt.Sprintf("%s.%d", base, f)]
		return ok
	}
	bound := c11B1
	if n := liveTotal + 4; len(lowUse) > 0 && n > bound {
		bound = n
	}
	// variant: EVERY primary cycle is time-limited and its budget expires while its first unvisited
	// file is being scanned, so a cycle gets exactly one file done; progress must then still be made
	// file by file, within (number of non-current files + the usual bound) cycles
	everyLimited := c.Index%4 == 1
	gcpLimit := 0
	primBound := c11B1
	if everyLimited {
		gcpLimit = 1001
		nfiles := 0
		for _, f := range l1.PrimFileNums() {
			if f < curPrim {
				nfiles++
			}
		}
		// a low-use file ahead in the order is revisited every cycle until it is drained (two
		// records per cycle), which delays the files behind it: allow for that as well
		liveAll := 0
		for f, n := range liveIn {
			if f < curPrim {
				liveAll += n
			}
		}
		primBound = 2*nfiles + liveAll + c11B1
		bound += 2*nfiles + liveAll
		res.Add("cases_with_every_cycle_time_limited", 1)
	}
	primReleasedAt := map[uint32]int{}
	idxReleasedAt := map[uint32]int{}
	lowReleasedAt := map[uint32]int{}
	prevLayout := r1
	var maxGrowth int64
	for i := 1; i <= bound; i++ {
		sizeBefore, _ := rn.S.StorageSize()
		visits = visits[:0]
		do(seq.Op{Kind: "gcp", A: threshold, B: gcpLimit})
		do(seq.Op{Kind: "flush"})
		do(seq.Op{Kind: "gci", A: i % 2})
		do(seq.Op{Kind: "flush"})
		if res.Verdict == "violated" {
			return res
		}
		res.Add("progress_cycles", 1)
		ds := c11Dir(env)
		if os.Getenv("VERIF_DEBUG") != "" {
			var ls []string
			for n, sz := range ds.files {
				if strings.HasPrefix(n, "d/") {
					ls = append(ls, fmt.Sprintf("%s:%d", n[2:], sz))
				}
			}
			sort.Strings(ls)
			fmt.Fprintf(os.Stderr, "cycle %d reloc=%d marks=%d visits=%v files=%v gcerr=%v\n", i, rt.Count("mh.gc.relocate.after-put"), rt.Count("mh.gc.freelist.before-mark"), visits, ls, rn.LastGCErr)
		}
		lN, rN := layout()
		if lN == nil {
			return res
		}
		// (d) growth
		sizeAfter, _ := rn.S.StorageSize()
		var allow int64
		nreloc := 0
		for d, old := range prevLayout.Content {
			nw, ok := rN.Content[d]
			if ok && nw.Off != old.Off {
				nreloc++
				allow += 4 + int64(nw.Size) + 24
				// rewritten record list of the key's bucket
				b := gen.Bucket([]byte(d), cfg.Bits)
				ll := 8
				for _, e := range rN.Lists[b] {
					ll += 13 + len(e.Prefix)
				}
				allow += int64(ll)
			}
		}
		growth := sizeAfter - sizeBefore
		if growth > maxGrowth {
			maxGrowth = growth
		}
		if nreloc == 0 && growth > 0 {
			res.Violate("gc-growth", "c11-growth-without-relocation", step, nil, "cycle %d relocated nothing but StorageSize grew from %d to %d", i, sizeBefore, sizeAfter)
		} else if growth > allow {
			res.Violate("gc-growth", "c11-growth-beyond-relocation", step, nil, "cycle %d relocated %d records (allowance %d bytes) but StorageSize grew by %d", i, nreloc, allow, growth)
		}
		res.Add("records_relocated", int64(nreloc))
		prevLayout = rN
		// (a) dead primary files
		for _, f := range deadPrim {
			if _, done := primReleasedAt[f]; !done && released(ds, "d/sth.data", f) {
				primReleasedAt[f] = i
			}
			// oldest when visited and dead after the cycle => unlinked
			for _, v := range visits {
				if v.file == f && v.first == f && released(ds, "d/sth.data", f) && exists(ds, "d/sth.data", f) {
					res.Violate("gc-unlink", "c11-oldest-dead-file-not-unlinked", step, nil, "primary file %d was the oldest file when cycle %d visited it and holds no data, but is still linked", f, i)
				}
			}
		}
		for _, f := range lowUse {
			if _, done := lowReleasedAt[f]; !done && released(ds, "d/sth.data", f) {
				lowReleasedAt[f] = i
			}
		}
		for _, f := range deadIdx {
			if _, done := idxReleasedAt[f]; !done && released(ds, "i/sth.index", f) {
				idxReleasedAt[f] = i
			}
		}
		if i == primBound {
			for _, f := range deadPrim {
				if _, ok := primReleasedAt[f]; !ok {
					res.Violate("gc-progress", "c11-dead-primary-file-not-released", step, nil, "non-current primary file %d holds no live record but is neither empty nor unlinked after %d primary GC cycles (size %d)", f, primBound, ds.files[fmt.Sprintf("d/sth.data.%d", f)])
				}
			}
		}
		if i == c11B2 {
			for _, f := range deadIdx {
				if _, ok := idxReleasedAt[f]; !ok {
					res.Violate("gc-progress", "c11-dead-index-file-not-released", step, nil, "non-current index file %d is referenced by no bucket but is neither empty nor unlinked after %d index GC cycles (size %d)", f, c11B2, ds.files[fmt.Sprintf("i/sth.index.%d", f)])
				}
			}
		}
	}
	// a low-use file may also stop being low-use: relocation plus truncation of its free tail can leave a
	// shorter file whose live share is above the threshold again; the clause then no longer applies to it
	lFin, rFin := layout()
	stillLow := func(f uint32) bool {
		if lFin == nil {
			return true
		}
		pf, ok := lFin.PrimFiles[f]
		if !ok || pf.Len == 0 {
			return false
		}
		var all, busy int64
		for _, rec := range pf.Recs {
			all += int64(rec.Size)
		}
		for _, loc := range rFin.Content {
			if uint32(loc.Off/pmfs) == f {
				busy += int64(loc.Size)
			}
		}
		return all > 0 && 100*(all-busy) >= int64(threshold+10)*all
	}
	for _, f := range lowUse {
		if _, ok := lowReleasedAt[f]; !ok && !stillLow(f) {
			res.Add("lowuse_files_no_longer_lowuse_after_truncation", 1)
			continue
		}
		if _, ok := lowReleasedAt[f]; !ok {
			res.Violate("gc-progress", "c11-lowuse-file-not-drained", step, nil, "primary file %d with free share >= %d%% (threshold %d) was not drained and released within %d cycles", f, threshold+10, threshold, bound)
		}
	}
	for _, n := range primReleasedAt {
		res.Add(fmt.Sprintf("primary_released_after_%d_cycles", n), 1)
	}
	for _, n := range idxReleasedAt {
		res.Add(fmt.Sprintf("index_released_after_%d_cycles", n), 1)
	}
	for _, n := range lowReleasedAt {
		res.Add(fmt.Sprintf("lowuse_released_after_%d_cycles", minInt(n, 9)), 1)
	}
	// (e) fixed point: settle, then one more round changes nothing
	settled := false
	var before dirState
	for j := 0; j < len(u.Keys)+8; j++ {
		before = c11Dir(env)
		do(seq.Op{Kind: "gcp", A: threshold})
		do(seq.Op{Kind: "flush"})
		do(seq.Op{Kind: "gci", A: 1})
		do(seq.Op{Kind: "flush"})
		if c11Dir(env).hash == before.hash {
			settled = true
			break
		}
	}
	if !settled {
		res.Violate("gc-fixed-point", "c11-no-fixed-point", step, nil, "repeated GC cycles on an unchanged store kept changing files after %d further rounds", len(u.Keys)+8)
	} else {
		res.Add("fixed_points_confirmed", 1)
		// and nothing is written in one more round
		w0 := rt.Count("index.flush.before-write") + rt.Count("mh.flush.before-write") + rt.Count("fl.flush.before-write")
		do(seq.Op{Kind: "gcp", A: threshold})
		do(seq.Op{Kind: "gci", A: 1})
		do(seq.Op{Kind: "flush"})
		w1 := rt.Count("index.flush.before-write") + rt.Count("mh.flush.before-write") + rt.Count("fl.flush.before-write")
		if c11Dir(env).hash != before.hash || w1 != w0 {
			res.Violate("gc-fixed-point", "c11-fixed-point-unstable", step, nil, "a further GC round after the fixed point wrote to the store (flush writes %d, directory changed %v)", w1-w0, c11Dir(env).hash != before.hash)
		}
	}
	rn.Probe("after-gc-progress")
	res.Add("max_storage_growth_per_cycle", 0)
	if maxGrowth > 0 {
		res.Add("cycles_with_growth", 1)
	}
	res.Hash = core.HashStrings(cfg.String(), scenario, fmt.Sprint(threshold), fmt.Sprint(trace), u.Desc)
	res.NonTrivial = len(primReleasedAt)+len(idxReleasedAt)+len(lowReleasedAt) > 0
	if c.Index < 2 || res.Verdict == "violated" {
		res.Sample = map[string]any{"case": c.ID(), "config": cfg, "scenario": scenario, "threshold": threshold, "dead_primary": deadPrim, "low_use": lowUse, "dead_index": deadIdx, "first_ops": trace, "bound": bound}
	}
	_ = context.Background
	return res
}

func minInt(a, b int) int {
	if a < b {
		return a
	}
	return b
}
