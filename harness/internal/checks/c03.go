package checks

import (
	"context"
	"fmt"
	"math/rand/v2"
	"os"
	"strings"
	"time"

	"verif/harness/internal/core"
	"verif/harness/internal/crash"
	"verif/harness/internal/gen"
	"verif/harness/internal/hookrt"
	"verif/harness/internal/model"
	"verif/harness/internal/run"
	"verif/harness/internal/seq"
)

// C03: a process crash at any instant loses nothing that was flushed.

func init() {
	run.Register(&run.Check{
		ID:          "C03",
		Level:       "fault_enumeration",
		Cases:       func(tier string) int { return tierN(tier, 400, 3200) },
		Run:         runC03,
		CaseTimeout: 0,
		Rule: "case = (small configuration so that files roll over, key universe, single-threaded history of 30-80 calls with explicit Flush, index GC, primary GC, Close and reopen). The directory is imaged at EVERY hook point reached inside Flush/GC/Close/Open calls (hooks sit before each file-system mutation) and after every call; between consecutive images torn variants are synthesised (appended regions cut at 1,2,3,4,5,7,8,12,13,middle,n-5..n-1 bytes and around every record boundary - thorough: every byte for regions <= 512 B; rewritten files emptied and cut). Every image/variant is recovered: OpenStore must succeed, every key must read durable-or-acknowledged state, then the store is used further (puts that roll the files current at the crash, flushes, 2 primary + 2 index GC cycles, Close, reopen) under the C01/C04 oracle with fsck. " +
			"non-trivial iff the case produced images inside a Flush with pending updates AND inside a GC cycle or Close; distinct = distinct hash of (hook, variant kind, image content). Churn histories (case index mod 16 == 1): 20-33 rounds of 1-2 writes + Flush on 60-150 byte index files with an index GC cycle every second round. Interleaved family (case index mod 4 == 3): crash states in which a flush AND a collector are both mid-way: a GC cycle (index or primary) is parked at one of its lock-free step points, a Flush with pending updates is started and parked at one of its own step points (pool swapped / before the log write / after it / between primary, index and freelist), the collector is released and runs to its end while the flush stays parked, then the flush finishes; only one of the two ever runs at a time, so the image taken at every hook point is a true point-in-time state; each is recovered under the same oracle; an eighth of these cases interleave two Flush calls instead (the first parked inside or between its stages, the second issued meanwhile: if it returns nil while the first is still parked, the image taken at that moment must already contain everything acknowledged before it). Legacy family (case index mod 16 == 9): the crash happens inside the Open that converts a legacy single-file store (generated as in C10, without dangling entries); every hook point of the conversion and its torn variants is recovered by opening again and must show the legacy store's contents, also after Flush and a rescanning reopen",
		Assumptions: []string{
			"process-crash model: everything handed to the kernel survives, user-space buffers are lost; the store uses no mmap",
			"crash points are those of the executed single-threaded histories (flusher not started, collectors idle)",
			"in-place rewrites of equal length (4-byte size prefixes) and renames/truncations/unlinks are atomic",
			"recovers at most 450 (quick) / 1500 (thorough) images+variants per case (evenly thinned, count reported)",
		},
		Exhaustive: func(string) bool { return false },
		Post: func(cov map[string]any, st map[string]int64, tier string) {
			hooks := map[string]int64{}
			for k, v := range st {
				if strings.HasPrefix(k, "images@") {
					hooks[k[7:]] = v
				}
			}
			cov["images_per_hook"] = hooks
			cov["recoveries"] = st["recoveries"]
			cov["recoveries_with_pending"] = st["recoveries_with_pending"]
			cov["torn_variants"] = st["variants"]
		},
	})
}

type kstate struct {
	present bool
	v       string
}

type allowedSet struct {
	durable map[string]kstate
	pending map[string][]kstate
}

func (a *allowedSet) freeze() *allowedSet {
	c := &allowedSet{durable: make(map[string]kstate, len(a.durable)), pending: make(map[string][]kstate, len(a.pending))}
	for k, v := range a.durable {
		c.durable[k] = v
	}
	for k, v := range a.pending {
		c.pending[k] = append([]kstate{}, v...)
	}
	return c
}

func (a *allowedSet) allows(d string, s kstate) bool {
	if a.durable[d] == s {
		return true
	}
	for _, p := range a.pending[d] {
		if p == s {
			return true
		}
	}
	return false
}

func kindClass(kind string) string {
	if kind == "step" {
		return "step"
	}
	i := strings.IndexByte(kind, ':')
	if i < 0 {
		return kind
	}
	cls, rest := kind[:i], kind[i+1:]
	if j := strings.IndexByte(rest, '@'); j >= 0 {
		rest = rest[:j]
	}
	file := "other"
	switch {
	case strings.HasSuffix(rest, ".info"):
		file = "header"
	case strings.Contains(rest, ".buckets"):
		file = "buckets"
	case strings.Contains(rest, ".free"):
		file = "freelist"
	case strings.HasPrefix(rest, "i/") || strings.Contains(rest, "index"):
		file = "index"
	case strings.HasPrefix(rest, "d/"):
		file = "primary"
	}
	return cls + ":" + file
}

func c03Case(c run.Ctx) (gen.Config, gen.Universe, []seq.Op, *rand.Rand) {
	prop := c.Prop
	if prop == "" {
		prop = "C03"
	}
	r := gen.Rng(c.Seed, propStream(prop), uint64(c.Index))
	cfg := gen.Config{Primary: gen.MH, Bits: []uint8{8, 9, 12}[r.IntN(3)],
		IndexFileSize:   []uint32{16, 40, 100, 1024}[r.IntN(4)],
		PrimaryFileSize: []uint32{16, 50, 300, 4096}[r.IntN(4)],
		FileCache:       []int{0, 1, 512}[r.IntN(3)]}
	if r.IntN(4) == 0 {
		cfg.Primary = gen.CID
	}
	if c.Index%16 == 5 || c.Tier == "burst" {
		// burst history: far more than 1024 superseded locations between two flushes (in-memory
		// pools and buffers must not spill to disk ahead of the commit order)
		cfg.IndexFileSize, cfg.PrimaryFileSize = 4096, 65536
		u := gen.MakeUniverse(r, cfg.Primary, 24+r.IntN(16))
		var ops []seq.Op
		vid := uint64(1)
		for k := range u.Keys {
			ops = append(ops, seq.Op{Kind: "put", K: k, VID: vid, VLen: 4 + r.IntN(20)})
			vid++
		}
		ops = append(ops, seq.Op{Kind: "flush"})
		for i := 0; i < 1100+r.IntN(300); i++ {
			if r.IntN(10) == 0 {
				ops = append(ops, seq.Op{Kind: "rm", K: r.IntN(len(u.Keys))})
			} else {
				ops = append(ops, seq.Op{Kind: "put", K: r.IntN(len(u.Keys)), VID: vid, VLen: 4 + r.IntN(20)})
				vid++
			}
		}
		if cfg.Primary == gen.MH && r.IntN(2) == 0 {
			ops = append(ops, seq.Op{Kind: "gcp", A: 50})
		}
		ops = append(ops, seq.Op{Kind: "flush"}, seq.Op{Kind: "reopen", A: r.IntN(3), B: 1})
		return cfg, u, ops, r
	}
	if c.Index%16 == 1 {
		// index-GC churn: few small record lists per index file, superseded one after the other, an index
		// GC cycle every second round - free spans grow record by record across cycles, and a crash
		// afterwards is recovered by rescanning exactly those files
		cfg = gen.Config{Primary: gen.MH, Bits: 8, IndexFileSize: []uint32{60, 100, 150}[r.IntN(3)], PrimaryFileSize: []uint32{300, 4096}[r.IntN(2)], FileCache: []int{0, 512}[r.IntN(2)]}
		u := gen.MakeUniverse(r, cfg.Primary, 8+r.IntN(10))
		var ops []seq.Op
		vid := uint64(1)
		// (every second churn case writes exactly once per round: one record list per flush, so the
		// order of the lists in the log does not depend on Go's map iteration order)
		single := (c.Index/16)%2 == 0
		for i := 0; i < 20+r.IntN(14); i++ {
			nw := 1 + r.IntN(2)
			if single {
				nw = 1
			}
			for j := 0; j < nw; j++ {
				if r.IntN(8) == 0 {
					ops = append(ops, seq.Op{Kind: "rm", K: r.IntN(len(u.Keys))})
				} else {
					ops = append(ops, seq.Op{Kind: "put", K: r.IntN(len(u.Keys)), VID: vid, VLen: 1 + r.IntN(20)})
					vid++
				}
			}
			ops = append(ops, seq.Op{Kind: "flush"})
			if i%2 == 1 {
				// (in every other churn case half of the cycles are cut short by a budget of 1-6 step points, so
				// that later cycles resume in the middle of the file sequence)
				lim := 0
				if (c.Index/32)%2 == 1 && r.IntN(2) == 0 {
					lim = 1 + r.IntN(6)
				}
				ops = append(ops, seq.Op{Kind: "gci", A: r.IntN(2), B: lim})
			}
		}
		ops = append(ops, seq.Op{Kind: "flush"}, seq.Op{Kind: "reopen", A: 1, B: 1})
		return cfg, u, ops, r
	}
	u := gen.MakeUniverse(r, cfg.Primary, 4+r.IntN(11))
	p := seq.Profile{N: 30 + r.IntN(51), Keys: len(u.Keys), GC: cfg.Primary == gen.MH, GCLimit: r.IntN(3) == 0, Reopen: true, NoHuge: true, RemoveHeavy: r.IntN(2) == 0, Iter: r.IntN(3) == 0}
	ops := seq.GenOps(r, p)
	ops = append(ops, seq.Op{Kind: "flush"}, seq.Op{Kind: "reopen", A: r.IntN(3), B: 1})
	return cfg, u, ops, r
}

// crashExplore runs ops with imaging and returns the recorder; tag() freezes the allowed set.
type crashRun struct {
	env    *core.Env
	rt     *hookrt.RT
	rc     *crash.Recorder
	rn     *seq.Runner
	allow  *allowedSet
	frozen map[int]*allowedSet
}

func writerOp(k string) bool {
	switch k {
	case "flush", "gcp", "gci", "reopen", "iter", "rebits":
		return true
	}
	return false
}

func runC03(c run.Ctx) *core.CaseResult {
	if c.Index%4 == 3 {
		return runC03Interleaved(c)
	}
	if c.Index%16 == 9 {
		// crash inside the Open that converts a legacy-format store: every hook point of the
		// conversion (and torn variants) is recovered by opening again; the contents must be the
		// legacy store's (its last completed Close). Stores whose index names missing primary data
		// (trigger class of known finding C10-F1) are left to C10.
		for k := 0; k < 40; k++ {
			cc := c10Gen(run.Ctx{Prop: "C03legacy", Seed: c.Seed, Index: c.Index*64 + k, Tier: c.Tier}, true)
			if cc.ls.Dangling == 0 {
				res := c10CrashExplore(c, cc)
				res.Add("legacy_upgrade_crash_cases", 1)
				return res
			}
		}
	}
	cfg, u, ops, r := c03Case(c)
	res := &core.CaseResult{ID: c.ID(), Verdict: "held"}
	env, err := core.NewEnv(cfg)
	if err != nil {
		res.Verdict = "inconclusive"
		return res
	}
	defer env.Cleanup()
	rt := hookrt.New()
	rt.Install()
	defer hookrt.Uninstall()
	rc := crash.NewRecorder(env.Root, rt)
	allow := &allowedSet{durable: map[string]kstate{}, pending: map[string][]kstate{}}
	var rn *seq.Runner
	commit := func(*seq.Runner) {
		allow.durable = map[string]kstate{}
		for d, v := range rn.M.M {
			allow.durable[d] = kstate{true, string(v)}
		}
		allow.pending = map[string][]kstate{}
		rc.Tag = allow.freeze()
	}
	rn = seq.NewRunner(env, u, rt, res, seq.Opts{AfterFlush: commit, AfterClose: commit})
	// the very first open is imaged too
	rc.Enabled = true
	rc.Call = -1
	rc.Tag = allow.freeze()
	rc.Capture("before-first-open")
	ok := rn.Open()
	rc.Capture("after-call")
	rc.Enabled = false
	if !ok {
		return res
	}
	pendingAtFlush := false
	gcOrClose := false
	for i, o := range ops {
		rc.Call = i
		if writerOp(o.Kind) {
			rc.Tag = allow.freeze()
			rc.Enabled = true
			if o.Kind == "flush" && len(allow.pending) > 0 {
				pendingAtFlush = true
			}
			if o.Kind != "flush" && o.Kind != "iter" {
				gcOrClose = true
			}
		}
		rn.Exec(i, o)
		if rc.Enabled {
			rc.Capture("after-call")
			rc.Enabled = false
		} else if i%32 == 31 {
			// calls that should not touch the disk are imaged too, now and then (identical images are dropped)
			rc.Tag = allow.freeze()
			rc.Capture("after-call")
		}
		switch o.Kind {
		case "put", "rm":
			k := u.Keys[o.K%len(u.Keys)]
			v, ok := rn.M.Get(k.Digest)
			allow.pending[string(k.Digest)] = append(allow.pending[string(k.Digest)], kstate{ok, string(v)})
		}
		if res.Verdict == "violated" {
			// a violation of the sequential oracle inside a crash case is reported as is
			break
		}
	}
	rn.Finish()
	if res.Verdict == "violated" {
		res.Sample = sampleOfN(c, cfg, u, ops, 200)
		return res
	}
	for h, n := range rc.Hooks {
		res.Add("images@"+h, n)
	}
	res.Add("images", int64(len(rc.Points)))
	res.Add("identical_images_skipped", rc.Skipped)

	// images + variants
	thorough := c.Tier == "thorough"
	var multi int64
	var all []crash.Point
	for i, p := range rc.Points {
		if i > 0 {
			vs := crash.Variants(rc.Points[i-1], p, thorough, &multi)
			res.Add("variants", int64(len(vs)))
			all = append(all, vs...)
		}
		all = append(all, p)
	}
	res.Add("transitions_changing_several_files", multi)
	for k, v := range crash.MultiHooks {
		res.Add("multi:"+k, v)
		delete(crash.MultiHooks, k)
	}
	limit := 450
	if thorough {
		limit = 1500
	}
	stride := 1
	if len(all) > limit {
		stride = (len(all) + limit - 1) / limit
		res.Add("recoveries_thinned_out", int64(len(all)-len(all)/stride))
	}
	seen := map[string]bool{}
	off := r.IntN(stride)
	for i := off; i < len(all); i += stride {
		p := all[i]
		h := p.Img.Hash()
		if seen[h] {
			res.Add("duplicate_images_skipped", 1)
			continue
		}
		seen[h] = true
		recoverPoint(res, cfg, u, p, r, i)
		if len(res.Violations) >= 12 {
			break
		}
	}
	res.Add("distinct_images_recovered", int64(len(seen)))
	var hs []string
	for h := range seen {
		hs = append(hs, h)
	}
	res.Hash = core.HashStrings(caseHash(cfg, u, ops))
	res.NonTrivial = pendingAtFlush && gcOrClose && len(seen) >= 10
	if c.Index < 2 || res.Verdict == "violated" {
		res.Sample = map[string]any{"case": c.ID(), "config": cfg, "universe": u.Desc, "ops": opsStrings(ops, 200), "images": len(rc.Points), "images_and_variants": len(all), "recovered": len(seen)}
	}
	_ = hs
	return res
}

// recoverPoint materialises one crash state and runs the recovery oracle.
func recoverPoint(res *core.CaseResult, cfg gen.Config, u gen.Universe, p crash.Point, r *rand.Rand, pi int) {
	allow := p.Tag.(*allowedSet)
	dir, err := os.MkdirTemp(core.Scratch(), "vchk-rec-")
	if err != nil {
		return
	}
	defer os.RemoveAll(dir)
	if err := p.Img.Materialize(dir); err != nil {
		return
	}
	env, _ := core.EnvAt(dir, cfg)
	where := fmt.Sprintf("%s/%s", p.Hook, kindClass(p.Kind))
	witness := map[string]any{"hook": p.Hook, "call": p.Call, "variant": p.Kind, "files": p.Img.Listing()}
	res.Add("recoveries", 1)
	if len(allow.pending) > 0 {
		res.Add("recoveries_with_pending", 1)
	}
	sub := &core.CaseResult{}
	rt := hookrt.New() // counts only; the global handler is replaced for the recovery
	rt.Install()
	rn := seq.NewRunner(env, u, rt, sub, seq.Opts{ProbeAfterGC: true, FsckAtFlush: true})
	if !rn.Open() {
		for _, v := range sub.Violations {
			res.Violate("crash-open", "crash-open-fails@"+where, p.Call, witness, "after a crash at %s (%s) the store does not open: %s", p.Hook, p.Kind, v.Msg)
		}
		return
	}
	defer rn.Finish()
	// per-key oracle
	observed := model.New(cfg.Immutable)
	bad := false
	pp := core.Protect(func() {
		for _, k := range u.Keys {
			v, found, err := rn.S.Get(append([]byte{}, k.Raw...))
			res.Add("keys_checked", 1)
			if err != nil {
				res.Violate("crash-read-error", "crash-read-error@"+where, p.Call, witness, "after a crash at %s (%s) Get(%x) fails: %v", p.Hook, p.Kind, k.Digest, err)
				bad = true
				continue
			}
			st := kstate{found, string(v)}
			if !found {
				st.v = ""
			}
			if !allow.allows(string(k.Digest), st) {
				cls := "crash-wrong-value"
				if !found {
					cls = "crash-lost-key"
				} else if !allow.durable[string(k.Digest)].present && len(allow.pending[string(k.Digest)]) == 0 {
					cls = "crash-absent-key-present"
				}
				res.Violate(cls, cls+"@"+where, p.Call, witness, "after a crash at %s (%s) key %x reads found=%v value=%x; durable=%v pending=%d states", p.Hook, p.Kind, k.Digest, found, trunc(v), allow.durable[string(k.Digest)].present, len(allow.pending[string(k.Digest)]))
				bad = true
				continue
			}
			if found {
				observed.M[string(k.Digest)] = append([]byte{}, v...)
			}
			has, herr := rn.S.Has(append([]byte{}, k.Raw...))
			sz, sfound, serr := rn.S.GetSize(append([]byte{}, k.Raw...))
			if herr != nil || serr != nil || has != found || sfound != found || (found && int(sz) != len(v)) {
				res.Violate("crash-has-size", "crash-has-size@"+where, p.Call, witness, "after a crash at %s (%s) Has/GetSize disagree with Get for %x: has=%v,%v size=%d,%v,%v get found=%v len=%d", p.Hook, p.Kind, k.Digest, has, herr, sz, sfound, serr, found, len(v))
				bad = true
			}
		}
	})
	if pp != nil {
		res.Violate("crash-panic", "crash-panic@"+where, p.Call, witness, "after a crash at %s (%s) reading panics: %v", p.Hook, p.Kind, pp)
		return
	}
	if bad {
		return
	}
	// continuation under the sequential oracle on the adopted state
	rn.M = observed
	cr := gen.Rng(int64(pi), uint64(p.Call)+7, uint64(len(p.Img)))
	var cont []seq.Op
	vid := uint64(1 << 40)
	nput := 6 + cr.IntN(8)
	for i := 0; i < nput; i++ {
		k := cr.IntN(len(u.Keys))
		if cr.IntN(4) == 0 {
			cont = append(cont, seq.Op{Kind: "rm", K: k})
		} else {
			cont = append(cont, seq.Op{Kind: "put", K: k, VID: vid, VLen: 1 + cr.IntN(60)})
			vid++
		}
		if cr.IntN(3) == 0 {
			cont = append(cont, seq.Op{Kind: "flush"})
		}
	}
	cont = append(cont, seq.Op{Kind: "flush"})
	if cfg.Primary == gen.MH {
		cont = append(cont, seq.Op{Kind: "gcp", A: 1}, seq.Op{Kind: "flush"}, seq.Op{Kind: "gcp", A: 50}, seq.Op{Kind: "gci", A: 1}, seq.Op{Kind: "gci", A: 0}, seq.Op{Kind: "flush"})
	}
	cont = append(cont, seq.Op{Kind: "reopen", A: cr.IntN(3), B: 1}, seq.Op{Kind: "get", K: 0}, seq.Op{Kind: "flush"})
	for i, o := range cont {
		rn.Exec(i, o)
		if sub.Verdict == "violated" {
			break
		}
	}
	if sub.Verdict != "violated" {
		core.Protect(func() { rn.Probe("continuation-final") })
	}
	firstGC := len(cont)
	for i, o := range cont {
		if o.Kind == "gcp" || o.Kind == "gci" {
			firstGC = i
			break
		}
	}
	for i, v := range sub.Violations {
		if i >= 2 {
			break
		}
		phase := "pre-gc"
		if v.Step >= firstGC {
			phase = "post-gc"
		}
		res.Violate("crash-continuation", "crash-continuation:"+v.Kind+":"+phase+"@"+where, p.Call, witness, "after recovering from a crash at %s (%s) continued use misbehaves at continuation step %d (%v): %s", p.Hook, p.Kind, v.Step, contOp(cont, v.Step), v.Msg)
	}
	res.Add("continuations_run", 1)
}

func contOp(cont []seq.Op, i int) string {
	if i >= 0 && i < len(cont) {
		return cont[i].String()
	}
	return "final-probe"
}

func trunc(b []byte) []byte {
	if len(b) > 16 {
		return b[:16]
	}
	return b
}

// ------------------------------------------------------------------ interleaved family

var c03FlushHooks = []string{"store.commit.after-primary", "store.commit.after-index", "index.flush.swapped", "index.flush.before-write", "index.flush.written", "mh.flush.swapped", "mh.flush.before-write", "mh.flush.written", "index.flushbucket.rolled", "mh.flushblock.rolled"}
var c03GCHooksIdx = []string{"index.gc.reap.before-busy", "index.gc.reap.after-busy", "index.gc.reap.before-mark", "index.gc.reap.before-truncate", "index.gc.file.start", "index.gc.before-header", "index.gc.before-remove", "index.gc.free.scanned"}
var c03GCHooksPrim = []string{"mh.gc.after-freelist", "mh.gc.freelist.before-mark", "mh.gc.file.start", "mh.gc.reap.before-truncate", "mh.gc.relocate.read", "mh.gc.relocate.after-put", "mh.gc.relocate.after-update", "mh.gc.before-header", "mh.gc.before-remove"}

func runC03Interleaved(c run.Ctx) *core.CaseResult {
	res := &core.CaseResult{ID: c.ID(), Verdict: "held"}
	r := gen.Rng(c.Seed, propStream("C03il"), uint64(c.Index))
	cfg := gen.Config{Primary: gen.MH, Bits: []uint8{8, 9}[r.IntN(2)], IndexFileSize: []uint32{40, 100}[r.IntN(2)], PrimaryFileSize: []uint32{50, 120}[r.IntN(2)], FileCache: []int{0, 512}[r.IntN(2)]}
	env, err := core.NewEnv(cfg)
	if err != nil {
		res.Verdict = "inconclusive"
		return res
	}
	defer env.Cleanup()
	rt := hookrt.New()
	rt.Install()
	defer hookrt.Uninstall()
	u := gen.MakeUniverse(r, cfg.Primary, 5+r.IntN(6))
	rc := crash.NewRecorder(env.Root, rt)
	allow := &allowedSet{durable: map[string]kstate{}, pending: map[string][]kstate{}}
	var rn *seq.Runner
	commit := func(*seq.Runner) {
		allow.durable = map[string]kstate{}
		for d, v := range rn.M.M {
			allow.durable[d] = kstate{true, string(v)}
		}
		allow.pending = map[string][]kstate{}
	}
	rn = seq.NewRunner(env, u, rt, res, seq.Opts{AfterFlush: commit})
	if !rn.Open() {
		return res
	}
	defer rn.Finish()
	step := 0
	var trace []string
	do := func(o seq.Op) {
		rn.Exec(step, o)
		step++
		trace = append(trace, o.String())
		if o.Kind == "put" || o.Kind == "rm" {
			k := u.Keys[o.K%len(u.Keys)]
			v, ok := rn.M.Get(k.Digest)
			allow.pending[string(k.Digest)] = append(allow.pending[string(k.Digest)], kstate{ok, string(v)})
		}
	}
	var vid uint64 = 1
	// phase 1: several flushed rounds so that non-current index and primary files with superseded records exist
	for round := 0; round < 4+r.IntN(4); round++ {
		for i := 0; i < 2+r.IntN(4); i++ {
			if r.IntN(5) == 0 {
				do(seq.Op{Kind: "rm", K: r.IntN(len(u.Keys))})
			} else {
				do(seq.Op{Kind: "put", K: r.IntN(len(u.Keys)), VID: vid, VLen: 1 + r.IntN(40)})
				vid++
			}
		}
		do(seq.Op{Kind: "flush"})
	}
	// phase 2: pending updates
	for i := 0; i < 2+r.IntN(4); i++ {
		if r.IntN(4) == 0 {
			do(seq.Op{Kind: "rm", K: r.IntN(len(u.Keys))})
		} else {
			do(seq.Op{Kind: "put", K: r.IntN(len(u.Keys)), VID: vid, VLen: 1 + r.IntN(40)})
			vid++
		}
	}
	if res.Verdict == "violated" {
		return res
	}
	// phase 3: collector parked, flush parked, collector finishes, flush finishes - imaging throughout
	useIdx := r.IntN(2) == 0
	gcHook := c03GCHooksPrim[r.IntN(len(c03GCHooksPrim))]
	if useIdx {
		gcHook = c03GCHooksIdx[r.IntN(len(c03GCHooksIdx))]
		if r.IntN(2) == 0 {
			gcHook = "index.gc.reap.before-busy" // the decision point of index GC, most often
		}
	} else if r.IntN(3) == 0 {
		gcHook = "mh.gc.freelist.before-mark"
	}
	flHook := c03FlushHooks[r.IntN(len(c03FlushHooks))]
	if r.IntN(2) == 0 {
		flHook = []string{"index.flush.before-write", "store.commit.after-primary", "store.commit.after-index"}[r.IntN(3)] // between the stages of a commit
	}
	order := r.IntN(2) // 0: collector parked first; 1: flush parked first (only at hooks that hold no lock a cycle needs)
	if order == 1 {
		flHook = []string{"store.commit.after-primary", "store.commit.after-index"}[r.IntN(2)]
	}
	nth := 1 + r.IntN(6)
	switch (c.Index / 4) % 3 {
	case 0:
		// pinned pair: index GC about to decide whether a record list is still referenced, while a flush has
		// handed its new record lists to the writer but not written them yet
		useIdx, gcHook, flHook, order, nth = true, "index.gc.reap.before-busy", "index.flush.before-write", 0, 1+r.IntN(3)
	case 1:
		if r.IntN(2) == 0 {
			// pinned pair: primary GC about to apply a freelist entry while a commit is between primary and index
			useIdx, gcHook, flHook, order, nth = false, "mh.gc.freelist.before-mark", []string{"store.commit.after-primary", "index.flush.before-write"}[r.IntN(2)], 0, 1+r.IntN(3)
		}
	}
	if (c.Index/4)%8 == 5 && (c.Index/4)%3 != 0 { // (the pinned index-GC x flush pair keeps all of its cases)
		// flush x flush: a second Flush is issued while the first is parked inside (or between) its stages.
		// If the second returns nil while the first is still parked, everything acknowledged before it
		// must be durable in the image taken at that very moment.
		order = 2
		useIdx, gcHook = false, "(second Flush)"
		flHook = []string{"mh.flush.swapped", "mh.flush.before-write", "store.commit.after-primary", "index.flush.swapped", "index.flush.before-write", "store.commit.after-index"}[r.IntN(6)]
	}
	rc.Tag = allow.freeze()
	rc.Call = step
	rc.SetEnabled(true)
	rc.Capture("before-interleaving")
	ggc := hookrt.NewGate(gcHook, nth, 3*time.Second)
	gfl := hookrt.NewGate(flHook, 1, 3*time.Second)
	gcDone := make(chan struct{})
	flDone := make(chan error, 1)
	runGC := func() {
		defer close(gcDone)
		core.Protect(func() {
			if useIdx {
				rn.S.Index().VerifGC(context.Background(), r.IntN(2) == 0)
			} else {
				core.MH(rn.S).GC(context.Background(), int64([]int{1, 50}[r.IntN(2)]))
			}
		})
	}
	attained := false
	blocked := false
	if order == 2 {
		rt.AddGate(gfl)
		go func() { flDone <- rn.S.Flush() }()
		if gfl.WaitArrived(2 * time.Second) {
			f2 := make(chan error, 1)
			go func() { f2 <- rn.S.Flush() }()
			select {
			case err := <-f2:
				// the second Flush returned while the first is still parked
				if err != nil {
					res.Violate("flush-error", "flush-error", step, nil, "second Flush failed: %v", err)
				} else {
					attained = true
					commit(rn) // its return acknowledges everything before it as durable
					rc.Tag = allow.freeze()
					rc.Capture("second-flush-returned-first-flush-parked")
					res.Add("second_flush_returned_while_first_parked", 1)
				}
				gfl.Open()
				<-flDone
			case <-time.After(300 * time.Millisecond):
				// it waits for a lock the first one holds (as it should when the first is mid-stage): from
				// here on the two run at once, stop imaging
				rc.SetEnabled(false)
				res.Add("second_flush_waited_for_first", 1)
				blocked = true
				gfl.Open()
				<-flDone
				<-f2
			}
		} else {
			gfl.Open()
			<-flDone
		}
		close(gcDone)
	} else if order == 0 {
		rt.AddGate(ggc)
		go runGC()
		if ggc.WaitArrived(2 * time.Second) {
			rt.AddGate(gfl)
			go func() { flDone <- rn.S.Flush() }()
			if gfl.WaitArrived(2 * time.Second) {
				attained = true
			}
			ggc.Open() // the collector runs to its end while the flush stays parked
			select {
			case <-gcDone:
				rc.Capture("collector-finished-flush-parked")
			case <-time.After(1500 * time.Millisecond):
				// the collector needs a lock the parked flush holds: from here on both would run at
				// once and images would not be point-in-time states any more - stop imaging
				rc.SetEnabled(false)
				attained = false
				res.Add("interleavings_blocked_by_lock", 1)
				blocked = true
			}
			gfl.Open()
			<-flDone
			<-gcDone
		} else {
			ggc.Open()
			<-gcDone
			if err := rn.S.Flush(); err != nil {
				res.Violate("flush-error", "flush-error", step, nil, "Flush failed: %v", err)
			}
		}
	} else {
		rt.AddGate(gfl)
		go func() { flDone <- rn.S.Flush() }()
		if gfl.WaitArrived(2 * time.Second) {
			attained = true
			go runGC()
			select {
			case <-gcDone: // a whole cycle while the flush is between two of its stages
				rc.Capture("collector-finished-flush-parked")
			case <-time.After(1500 * time.Millisecond):
				rc.SetEnabled(false)
				attained = false
				res.Add("interleavings_blocked_by_lock", 1)
				blocked = true
			}
			gfl.Open()
			<-flDone
			<-gcDone
		} else {
			gfl.Open()
			<-flDone
		}
	}
	rt.ClearGates()
	if ggc.TimedOut.Load() || gfl.TimedOut.Load() {
		// a gate expired by itself: the two activities may have overlapped, their images are not trusted
		res.Verdict = "inconclusive"
		res.Note = "gate expired; interleaved images discarded"
		return res
	}
	if !blocked {
		// (after a blocked interleaving imaging was switched off mid-way; an image taken now would
		// differ from the last one by several file-system steps at once)
		rc.Capture("after-call")
	}
	rc.SetEnabled(false)
	commit(rn)
	if attained {
		res.Flag("interleaving-attained")
		res.Add("interleavings_attained", 1)
		res.Add("interleaving:"+gcHook+" x "+flHook, 1)
	} else {
		res.Add("interleavings_not_attained", 1)
	}
	core.Protect(func() { rn.Probe("after-interleaving") })
	for h, n := range rc.Hooks {
		res.Add("images@"+h, n)
	}
	res.Add("images", int64(len(rc.Points)))
	var all []crash.Point
	var multi int64
	for i, p := range rc.Points {
		if i > 0 {
			all = append(all, crash.Variants(rc.Points[i-1], p, c.Tier == "thorough", &multi)...)
		}
		all = append(all, p)
	}
	for k := range crash.MultiHooks {
		delete(crash.MultiHooks, k)
	}
	limit := 250
	stride := 1
	if len(all) > limit {
		stride = (len(all) + limit - 1) / limit
	}
	seen := map[string]bool{}
	for i := r.IntN(stride); i < len(all); i += stride {
		p := all[i]
		h := p.Img.Hash()
		if seen[h] {
			continue
		}
		seen[h] = true
		recoverPoint(res, cfg, u, p, r, i)
		if len(res.Violations) >= 8 {
			break
		}
	}
	res.Add("distinct_images_recovered", int64(len(seen)))
	res.Hash = core.HashStrings(cfg.String(), gcHook, flHook, fmt.Sprint(order), strings.Join(trace, ","))
	res.NonTrivial = attained && len(seen) >= 5
	if c.Index < 16 || res.Verdict == "violated" {
		res.Sample = map[string]any{"case": c.ID(), "kind": "interleaved flush x collector", "config": cfg, "collector_parked_at": gcHook, "flush_parked_at": flHook, "order": []string{"collector first", "flush first", "flush x flush"}[order], "attained": attained, "images": len(rc.Points), "ops": trace}
	}
	return res
}
