package checks

import (
	"fmt"
	"os"
	"sync"
	"time"

	"github.com/ipld/go-storethehash/store"

	"verif/harness/internal/core"
	"verif/harness/internal/gen"
	"verif/harness/internal/hookrt"
	"verif/harness/internal/run"
)

// c16FailingFlush: the error paths run concurrently too. A background flush fails (the primary file it
// has to roll over to exists already) while rate-limited writers register for flush notices and the
// flusher keeps retrying; afterwards Close. Only race-detector reports are verdicts here.
func c16FailingFlush(c run.Ctx, res *core.CaseResult) {
	r := gen.Rng(c.Seed, propStream("C16fault"), uint64(c.Index))
	cfg := gen.Config{Primary: gen.MH, Bits: 8, IndexFileSize: []uint32{100, 1024}[r.IntN(2)], PrimaryFileSize: []uint32{200, 300}[r.IntN(2)], FileCache: []int{2, 512}[r.IntN(2)]}
	env, err := core.NewEnv(cfg)
	if err != nil {
		res.Verdict = "inconclusive"
		return
	}
	defer env.Cleanup()
	rt := hookrt.New()
	rt.Install()
	defer hookrt.Uninstall()
	s, err := env.Open(store.BurstRate(1), store.SyncInterval(time.Millisecond), store.GCInterval(time.Duration(2+r.IntN(3))*time.Millisecond))
	if err != nil {
		res.Verdict = "inconclusive"
		return
	}
	s.Start()
	u := gen.MakeUniverse(r, cfg.Primary, 6)
	for i := 0; i < 4; i++ {
		s.VerifSetFlushRate(1e15)
		s.Put(append([]byte{}, u.Keys[i%len(u.Keys)].Raw...), gen.Value(uint64(100+i), 40))
	}
	s.Flush()
	if mp := core.MH(s); mp != nil {
		for d := uint32(1); d <= 2; d++ {
			os.WriteFile(fmt.Sprintf("%s.%d", env.DataPath, mp.VerifFileNum()+d), []byte("x"), 0o644)
		}
	}
	var wg sync.WaitGroup
	var refused, done int64
	var mu sync.Mutex
	for w := 0; w < 3; w++ {
		wg.Add(1)
		go func(w int) {
			defer wg.Done()
			for i := 0; i < 15; i++ {
				s.VerifSetFlushRate(1e-9) // every write takes the waiting path
				err := s.Put(append([]byte{}, u.Keys[(w+i)%len(u.Keys)].Raw...), gen.Value(uint64(1000+w*100+i), 60+i))
				mu.Lock()
				if err != nil {
					refused++
					mu.Unlock()
					return
				}
				done++
				mu.Unlock()
			}
		}(w)
	}
	// writers that were waiting when the flush failed are not woken by it (C12 only covers succeeding
	// flushes): do not wait for them beyond a moment
	fin := make(chan struct{})
	go func() { wg.Wait(); close(fin) }()
	select {
	case <-fin:
	case <-time.After(300 * time.Millisecond):
		res.Add("writers_left_waiting_after_failed_flush", 1)
	}
	core.Protect(func() { s.Close() })
	mu.Lock()
	res.Add("c16_failing_flush_cases", 1)
	res.Add("writes_before_the_failure", done)
	res.Add("writes_refused_after_the_failure", refused)
	mu.Unlock()
	res.Add("flushes_that_failed_or_ran", rt.Count("store.flush.before-commit"))
	res.Hash = core.HashStrings("c16fault", fmt.Sprint(c.Index))
	res.NonTrivial = rt.Count("store.flushtick.registered") > 0
}
