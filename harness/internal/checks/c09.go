package checks

import (
	"fmt"
	"os"
	"path/filepath"
	"strings"

	"verif/harness/internal/core"
	"verif/harness/internal/crash"
	"verif/harness/internal/gen"
	"verif/harness/internal/hookrt"
	"verif/harness/internal/run"
	"verif/harness/internal/seq"
)

// C09: changing the index bit size re-buckets without changing contents;
// file-size mismatches are refused; an interrupted re-bucketing never leaves
// a store that opens successfully with fewer keys.

var c09Bits = []uint8{8, 9, 12, 15, 16, 17, 20, 24}

func c09Pairs() [][2]uint8 {
	var out [][2]uint8
	for _, a := range c09Bits {
		for _, b := range c09Bits {
			if a != b {
				out = append(out, [2]uint8{a, b})
			}
		}
	}
	return out
}

func c09Counts(tier string) (pairs, chains, crashes int) {
	if tier == "thorough" {
		return len(c09Pairs()) * 10, 600, 160
	}
	return len(c09Pairs()), 80, 16
}

func init() {
	run.Register(&run.Check{
		ID:    "C09",
		Level: "exploration",
		Cases: func(tier string) int { a, b, c := c09Counts(tier); return a + b + c },
		Run:   runC09,
		Rule: "three case families: (1) every ordered pair (old,new) over bits {8,9,12,15,16,17,20,24}: a C01 history (small index files, shared prefixes, removals, GC'd files) is closed and reopened with the new size, contents compared with the model and the history continues under the new size; (2) chains old->new->old->... with reopen attempts using another IndexFileSize/PrimaryFileSize interleaved, which must fail with ErrIndexWrongFileSize / ErrPrimaryWrongFileSize (errors.As) and leave the contents intact; (3) crash enumeration: the directory is imaged at every hook point inside OpenStore while it translates, torn variants included, and every image is opened with the new and with the old bit size: an open that succeeds must show every model key with its value (failing to open is allowed). " +
			"non-trivial iff the case re-bucketed a store holding >=2 keys that shared a bucket under the old or new size, or recovered >=5 distinct translation images; distinct = hash of (configuration, digests, operations)",
		Assumptions: []string{
			"24-bit sizes appear only in the pair matrix with short histories (128 MiB bucket tables)",
			"a refused open is not required to leave every file untouched (the statement only requires the later correct open to find the contents)",
		},
		Post: func(cov map[string]any, st map[string]int64, tier string) {
			m := map[string]int64{}
			for k, v := range st {
				if strings.HasPrefix(k, "rebucket_") && strings.Contains(k, "_to_") {
					m[k[9:]] = v
				}
			}
			cov["pair_matrix"] = m
			cov["ordered_pairs_covered"] = len(m)
			cov["translation_images_recovered"] = st["recoveries"]
			cov["recovery_opens_succeeded"] = st["recovery_open_ok"]
			cov["recovery_opens_refused"] = st["recovery_open_refused"]
		},
	})
}

func runC09(c run.Ctx) *core.CaseResult {
	npairs, nchains, _ := c09Counts(c.Tier)
	r := gen.Rng(c.Seed, propStream("C09"), uint64(c.Index))
	switch {
	case c.Index < npairs:
		pair := c09Pairs()[c.Index%len(c09Pairs())]
		cfg := gen.PickConfig(r, false, true, 24)
		cfg.Bits = pair[0]
		big := pair[0] == 24 || pair[1] == 24
		u := gen.MakeUniverse(r, cfg.Primary, 4+r.IntN(30))
		n := 60 + r.IntN(120)
		if big {
			n = 30
		}
		p := seq.Profile{N: n, Keys: len(u.Keys), GC: cfg.Primary == gen.MH, FlushBeforeGC: r.IntN(2) == 0, RemoveHeavy: true, NoHuge: true}
		ops := seq.GenOps(r, p)
		ops = append(ops, seq.Op{Kind: "rebits", A: int(pair[1])})
		p.N = n / 2
		ops = append(ops, seq.GenOps(r, p)...)
		return runSeq(c, seqCase{cfg, u, ops}, seq.Opts{FinalReopen: true}, func(res *core.CaseResult) bool {
			return res.HasFlag("rebucketed") && res.HasFlag("shared-bucket")
		})
	case c.Index < npairs+nchains:
		cfg := gen.PickConfig(r, false, true, 17)
		u := gen.MakeUniverse(r, cfg.Primary, 4+r.IntN(30))
		var ops []seq.Op
		small := []uint8{8, 9, 12, 15, 16, 17, 20}
		for leg := 0; leg < 3+r.IntN(4); leg++ {
			p := seq.Profile{N: 20 + r.IntN(60), Keys: len(u.Keys), GC: cfg.Primary == gen.MH, RemoveHeavy: true, NoHuge: true, Reopen: r.IntN(3) == 0}
			ops = append(ops, seq.GenOps(r, p)...)
			switch r.IntN(4) {
			case 0:
				ops = append(ops, seq.Op{Kind: "mismatch", A: 0 + 2*(leg%2)})
			case 1:
				if cfg.Primary == gen.MH {
					ops = append(ops, seq.Op{Kind: "mismatch", A: 1 + 2*(leg%2)})
				}
			}
			nb := small[r.IntN(len(small))]
			ops = append(ops, seq.Op{Kind: "rebits", A: int(nb)})
		}
		return runSeq(c, seqCase{cfg, u, ops}, seq.Opts{FinalReopen: true}, func(res *core.CaseResult) bool {
			return res.HasFlag("rebucketed") && res.HasFlag("shared-bucket")
		})
	default:
		return runC09Crash(c)
	}
}

func runC09Crash(c run.Ctx) *core.CaseResult {
	r := gen.Rng(c.Seed, propStream("C09crash"), uint64(c.Index))
	res := &core.CaseResult{ID: c.ID(), Verdict: "held"}
	small := []uint8{8, 9, 12, 13}
	cfg := gen.Config{Primary: gen.MH, Bits: small[r.IntN(len(small))],
		IndexFileSize:   []uint32{40, 100, 1024}[r.IntN(3)],
		PrimaryFileSize: []uint32{50, 300, 4096}[r.IntN(3)], FileCache: []int{0, 512}[r.IntN(2)]}
	if r.IntN(4) == 0 {
		cfg.Primary = gen.CID
	}
	newBits := small[r.IntN(len(small))]
	for newBits == cfg.Bits {
		newBits = small[r.IntN(len(small))]
	}
	oldBits := cfg.Bits
	env, err := core.NewEnv(cfg)
	if err != nil {
		res.Verdict = "inconclusive"
		return res
	}
	defer env.Cleanup()
	rt := hookrt.New()
	rt.Install()
	defer hookrt.Uninstall()
	u := gen.MakeUniverse(r, cfg.Primary, 4+r.IntN(12))
	rc := crash.NewRecorder(env.Root, rt)
	var rn *seq.Runner
	rn = seq.NewRunner(env, u, rt, res, seq.Opts{AfterClose: func(*seq.Runner) {
		if rc.Call == 1 {
			rc.Enabled = true
			rc.Capture("before-translating-open")
		}
	}})
	p := seq.Profile{N: 25 + r.IntN(40), Keys: len(u.Keys), GC: cfg.Primary == gen.MH, RemoveHeavy: true, NoHuge: true}
	ops := seq.GenOps(r, p)
	if !rn.Open() {
		return res
	}
	for i, o := range ops {
		rn.Exec(i, o)
	}
	rc.Call = 1
	rn.Exec(len(ops), seq.Op{Kind: "rebits", A: int(newBits)})
	rc.Capture("after-call")
	rc.Enabled = false
	rn.Finish()
	if res.Verdict == "violated" {
		res.Sample = sampleOfN(c, cfg, u, ops, 200)
		return res
	}
	for h, n := range rc.Hooks {
		res.Add("images@"+h, n)
	}
	thorough := c.Tier == "thorough"
	var all []crash.Point
	var multi int64
	for i, pnt := range rc.Points {
		if i > 0 {
			vs := crash.Variants(rc.Points[i-1], pnt, thorough, &multi)
			res.Add("variants", int64(len(vs)))
			all = append(all, vs...)
		}
		all = append(all, pnt)
	}
	for k := range crash.MultiHooks {
		delete(crash.MultiHooks, k)
	}
	seen := map[string]bool{}
	limit := 300
	if thorough {
		limit = 2500
	}
	stride := 1
	if len(all) > limit {
		stride = (len(all) + limit - 1) / limit
	}
	for i := 0; i < len(all); i += stride {
		pnt := all[i]
		h := pnt.Img.Hash()
		if seen[h] {
			continue
		}
		seen[h] = true
		for _, bits := range []uint8{newBits, oldBits} {
			// every second image additionally carries what an EARLIER translation leaves when it is
			// interrupted at the very end of removing its old_index directory: the empty directory
			c09Recover(res, cfg, bits, u, rn, pnt, len(seen)%2 == 0)
		}
		if len(res.Violations) >= 10 {
			break
		}
	}
	res.Add("distinct_images_recovered", int64(len(seen)))
	res.Hash = caseHash(cfg, u, ops) + fmt.Sprint(newBits)
	res.NonTrivial = len(seen) >= 5
	if c.Index%4 == 0 || res.Verdict == "violated" {
		res.Sample = map[string]any{"case": c.ID(), "kind": "crash-in-translation", "config": cfg, "new_bits": newBits, "images": len(rc.Points), "images_and_variants": len(all), "recovered": len(seen), "ops": opsStrings(ops, 30)}
	}
	return res
}

func c09Recover(res *core.CaseResult, cfg gen.Config, bits uint8, u gen.Universe, orig *seq.Runner, p crash.Point, olderEmptyDir bool) {
	dir, err := os.MkdirTemp(core.Scratch(), "vchk-rec9-")
	if err != nil {
		return
	}
	defer os.RemoveAll(dir)
	if err := p.Img.Materialize(dir); err != nil {
		return
	}
	cfg.Bits = bits
	env, _ := core.EnvAt(dir, cfg)
	if olderEmptyDir {
		os.MkdirAll(filepath.Join(filepath.Dir(env.IndexPath), "old_index000"), 0o755)
		res.Add("recoveries_with_older_empty_old_index_dir", 1)
	}
	where := fmt.Sprintf("%s/%s", p.Hook, kindClass(p.Kind))
	witness := map[string]any{"hook": p.Hook, "variant": p.Kind, "open_bits": bits, "files": p.Img.Listing()}
	res.Add("recoveries", 1)
	sub := &core.CaseResult{}
	rt := hookrt.New()
	rt.Install()
	rn := seq.NewRunner(env, u, rt, sub, seq.Opts{})
	rn.M = orig.M
	var opened bool
	pp := core.Protect(func() {
		s, err := env.Open()
		if err != nil {
			res.Add("recovery_open_refused", 1)
			return
		}
		opened = true
		rn.S = s
	})
	if pp != nil {
		res.Violate("crash-panic", "c09-crash-open-panic@"+where, 0, witness, "OpenStore panicked on a store whose re-bucketing was interrupted at %s (%s): %v", p.Hook, p.Kind, pp)
		return
	}
	if !opened {
		return
	}
	res.Add("recovery_open_ok", 1)
	defer rn.Finish()
	core.Protect(func() { rn.Probe("interrupted-translation") })
	for i, v := range sub.Violations {
		if i >= 2 {
			break
		}
		res.Violate("crash-translation", "c09-crash:"+v.Kind+"@"+where, 0, witness, "a re-bucketing interrupted at %s (%s) left a store that opens with %d bits but has wrong contents: %s", p.Hook, p.Kind, bits, v.Msg)
	}
}
