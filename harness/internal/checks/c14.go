package checks

import (
	"errors"
	"fmt"
	"io"
	"math/rand/v2"
	"os"
	"path/filepath"
	"runtime"
	"strings"
	"sync"
	"sync/atomic"
	"time"

	"github.com/ipld/go-storethehash/store/filecache"

	"verif/harness/internal/core"
	"verif/harness/internal/gen"
	"verif/harness/internal/run"
)

// C14: the file cache never closes a handle that is still lent out.

type fop struct {
	Kind byte // 'o' open name, 'c' close handle#, 'r' remove name, 'x' clear, 's' set size
	A    int
}

func (o fop) String() string {
	switch o.Kind {
	case 'o':
		return fmt.Sprintf("Open(%c)", 'a'+o.A)
	case 'c':
		return fmt.Sprintf("Close(h%d)", o.A)
	case 'r':
		return fmt.Sprintf("Remove(%c)", 'a'+o.A)
	case 'x':
		return "Clear"
	}
	return fmt.Sprintf("SetCacheSize(%d)", o.A)
}

type lent struct {
	f     *os.File
	name  int
	count int
	info  os.FileInfo
}

type fcEnv struct {
	dir     string
	names   []string
	fc      *filecache.FileCache
	handles []*lent // in order of first acquisition
	negRefs bool
	// slowEvict: the eviction callback yields (concurrent family): whatever the cache does around the
	// callback must not let another goroutine see the entry half removed
	slowEvict bool
	evictions atomic.Int64
}

func newFcEnv(dir string, cap0 int) *fcEnv {
	e := &fcEnv{dir: dir, fc: filecache.New(cap0)}
	// the three names are spelled differently: clean, with a "." element, with a doubled separator (all legal;
	// the cache must treat a name exactly as its users spell it)
	e.names = []string{filepath.Join(dir, "a"), dir + "/./b", dir + "//c"}
	e.fc.SetOnEvicted(func(f *os.File, refs int) {
		if refs < 0 {
			e.negRefs = true
		}
		if e.slowEvict {
			runtime.Gosched()
			if e.evictions.Add(1)%4 == 0 {
				time.Sleep(30 * time.Microsecond)
			}
		}
	})
	return e
}

func openFDsUnder(dir string) int {
	ents, err := os.ReadDir("/proc/self/fd")
	if err != nil {
		return -1
	}
	n := 0
	for _, en := range ents {
		t, err := os.Readlink("/proc/self/fd/" + en.Name())
		if err == nil && strings.HasPrefix(t, dir+"/") {
			n++
		}
	}
	return n
}

// step applies one op and evaluates the accounting identities; returns a violation text or "".
func (e *fcEnv) step(o fop) (kind, msg string) {
	switch o.Kind {
	case 'o':
		f, err := e.fc.Open(e.names[o.A])
		if err != nil {
			return "open-error", fmt.Sprintf("Open failed: %v", err)
		}
		var h *lent
		for _, l := range e.handles {
			if l.f == f {
				h = l
			}
		}
		if h == nil {
			info, _ := os.Stat(e.names[o.A])
			h = &lent{f: f, name: o.A, info: info}
			e.handles = append(e.handles, h)
		} else if h.name != o.A {
			return "wrong-file", fmt.Sprintf("Open(%s) returned the handle of %s", e.names[o.A], e.names[h.name])
		}
		h.count++
	case 'c':
		h := e.handles[o.A]
		if err := e.fc.Close(h.f); err != nil {
			return "close-error", fmt.Sprintf("legitimate Close of a lent handle of %c returned %v", 'a'+h.name, err)
		}
		h.count--
	case 'r':
		e.fc.Remove(e.names[o.A])
	case 'x':
		e.fc.Clear()
	case 's':
		e.fc.SetCacheSize(o.A)
	}
	return e.account()
}

func (e *fcEnv) account() (string, string) {
	var nO, nR int
	for i, l := range e.handles {
		st, err := l.f.Stat()
		if l.count > 0 {
			nO++
			if err != nil {
				return "lent-handle-closed", fmt.Sprintf("handle h%d of %c is lent out (%d outstanding) but is closed: %v", i, 'a'+l.name, l.count, err)
			}
			if !os.SameFile(st, l.info) {
				return "lent-handle-wrong-file", fmt.Sprintf("handle h%d no longer refers to the file it was opened for", i)
			}
			buf := make([]byte, 1)
			if _, err := l.f.ReadAt(buf, 0); err != nil && errors.Is(err, os.ErrClosed) {
				return "lent-handle-closed", fmt.Sprintf("ReadAt on lent handle h%d fails: %v", i, err)
			}
		} else if err == nil {
			nR++
		}
	}
	ln, cp := e.fc.Len(), e.fc.Cap()
	if nR > ln {
		return "released-handle-leaked", fmt.Sprintf("%d released handles are still open but the cache holds only %d files (descriptor leak)", nR, ln)
	}
	if ln > nR+nO {
		return "cache-accounting", fmt.Sprintf("cache reports %d files but only %d released+%d lent handles are open", ln, nR, nO)
	}
	if cp > 0 && ln > cp {
		return "over-capacity", fmt.Sprintf("cache holds %d files with capacity %d", ln, cp)
	}
	if fds := openFDsUnder(e.dir); fds >= 0 && fds != nR+nO {
		return "descriptor-count", fmt.Sprintf("%d descriptors open under the cache directory, expected %d (released-cached %d + lent %d)", fds, nR+nO, nR, nO)
	}
	if cp > 0 && openFDsUnder(e.dir) > cp+nO {
		return "descriptor-bound", fmt.Sprintf("open descriptors exceed capacity %d + lent %d", cp, nO)
	}
	if e.negRefs {
		return "negative-refs", "onEvicted reported a negative reference count"
	}
	return "", ""
}

func (e *fcEnv) cleanup() {
	// release everything so descriptors do not accumulate across sequences
	for _, l := range e.handles {
		for l.count > 0 {
			e.fc.Close(l.f)
			l.count--
		}
	}
	e.fc.Clear()
	for _, l := range e.handles {
		l.f.Close() // already closed in correct runs; harmless
	}
}

func (e *fcEnv) next() []fop {
	var out []fop
	for n := 0; n < 3; n++ {
		out = append(out, fop{'o', n})
	}
	for i, l := range e.handles {
		if l.count > 0 {
			out = append(out, fop{'c', i})
		}
	}
	for n := 0; n < 3; n++ {
		out = append(out, fop{'r', n})
	}
	out = append(out, fop{'x', 0})
	for c := 0; c <= 3; c++ {
		out = append(out, fop{'s', c})
	}
	return out
}

func c14L(tier string) int {
	if tier == "thorough" {
		return 6
	}
	return 5
}

// first-level sharding: (initial capacity, first op) => 3 caps x 11 first ops
const c14Shards = 3 * 11

func c14Counts(tier string) (exh, random, conc int) {
	if tier == "thorough" {
		return c14Shards, 200, 300 + c14StoreCases(tier)
	}
	return c14Shards, 40, 40 + c14StoreCases(tier)
}

func c14StoreCases(tier string) int { return tierN(tier, 40, 600) + c14SlowCases(tier) }
func c14SlowCases(tier string) int  { return tierN(tier, 20, 300) }

func init() {
	run.Register(&run.Check{
		ID:    "C14",
		Level: "exploration",
		Race:  true,
		Cases: func(tier string) int { a, b, c := c14Counts(tier); return a + b + c },
		Run:   runC14,
		Rule: "three families on filecache.FileCache with real files: (names are spelled three ways: clean, with a '.' element, with a doubled separator) (1) bounded-exhaustive: ALL sequences up to length L (quick 5, thorough 6) over {Open(a|b|c), Close(h) for every currently lent handle, Remove(a|b|c), Clear, SetCacheSize(0|1|2|3)} from initial capacities {0,1,2}; after every step a shadow table of lent handles is used to check: every lent handle is open and refers to its file, legitimate Close returns nil, released-but-open handles <= Len() <= released+lent, Len() <= Cap() when Cap()>0, descriptors under the scratch directory == released-cached + lent, no negative reference count, no panic; (2) random sequences of length 30-200; (3) concurrent stress in the race build: 8 goroutines Open/ReadAt/Close while others Remove/Clear/SetCacheSize, each ReadAt on a handle the goroutine still holds must not fail with ErrClosed (in half of the runs the OnEvicted callback yields and sleeps), full accounting at quiescence; (4) the cache's users inside the store: a flushed, reopened store with FileCacheSize 1-2 and many small index/primary files is read by 6 Get/Has/GetSize loops while 2 goroutines run whole-store iterations and one toggles SetFileCacheSize - a lookup failing with a closed-file error (or any error, wrong value, panic) means some user gave a handle back while it was still lent to another; every fourth of these cases is the scripted window G21 (reader A parked between obtaining the cached handle of a primary file and reading from it, while reader B's read of a location GC truncated off that file fails; A's read must still succeed); (5) slow-open overlaps: an Open that blocks inside open(2) (a FIFO opened for reading) is overlapped with SetCacheSize(0|1), Clear, Remove of that name or a resize through 0, then completed by opening the FIFO's write end; the lent handle must be usable and at quiescence open descriptors == Len() <= Cap(). " +
			"non-trivial iff the case observed an eviction of a lent handle (removed-map path) and a resize through 0; distinct = distinct accounting states (cap, Len, released, lent) seen",
		Assumptions: []string{
			"eviction order and over-eviction are deliberately not modelled, only the accounting identities of the statement",
			"exhaustive only within the stated length bound and the 3-name universe",
		},
		Exhaustive: func(string) bool { return true },
		Post: func(cov map[string]any, st map[string]int64, tier string) {
			cov["exhaustive_bound"] = fmt.Sprintf("all sequences of length <= %d from capacities {0,1,2} over 3 names (%d sequences), plus %d random and %d concurrent runs (not exhaustive)", c14L(tier), st["exhaustive_sequences"], st["random_sequences"], st["concurrent_runs"])
		},
	})
}

type c14Obs struct {
	states      map[string]bool
	evictedLent bool
	throughZero bool
	seqs        int64
	steps       int64
}

func (ob *c14Obs) note(e *fcEnv, o fop, prevCap int) {
	var nO, nR int
	for _, l := range e.handles {
		if l.count > 0 {
			nO++
		} else if _, err := l.f.Stat(); err == nil {
			nR++
		}
	}
	ob.states[fmt.Sprintf("%d/%d/%d/%d", e.fc.Cap(), e.fc.Len(), nR, nO)] = true
	if nO > e.fc.Len() && e.fc.Cap() > 0 {
		ob.evictedLent = true // a lent handle is outside the cache although caching is on
	}
	if o.Kind == 's' && (o.A == 0) != (prevCap == 0) {
		ob.throughZero = true
	}
	ob.steps++
}

func runFcSeq(res *core.CaseResult, dir string, cap0 int, ops []fop, ob *c14Obs) {
	e := newFcEnv(dir, cap0)
	defer e.cleanup()
	ob.seqs++
	p := core.Protect(func() {
		for i, o := range ops {
			if o.Kind == 'c' && (o.A >= len(e.handles) || e.handles[o.A].count == 0) {
				return // not a legitimate close in this replay (cannot happen for enumerated sequences)
			}
			pc := e.fc.Cap()
			kind, msg := e.step(o)
			ob.note(e, o, pc)
			if kind != "" {
				res.Violate(kind, "c14-"+kind, i, map[string]any{"initial_capacity": cap0, "ops": fmt.Sprint(ops[:i+1])}, "capacity %d, %v: %s", cap0, ops[:i+1], msg)
				return
			}
		}
	})
	if p != nil {
		res.Violate("panic", "c14-panic", len(ops), map[string]any{"initial_capacity": cap0, "ops": fmt.Sprint(ops)}, "capacity %d, %v: panic: %v", cap0, ops, p)
	}
}

func runC14(c run.Ctx) *core.CaseResult {
	res := &core.CaseResult{ID: c.ID(), Verdict: "held"}
	dir, err := os.MkdirTemp(core.Scratch(), "vchk-fc-")
	if err != nil {
		res.Verdict = "inconclusive"
		return res
	}
	defer os.RemoveAll(dir)
	for i := 0; i < 3; i++ {
		os.WriteFile(filepath.Join(dir, string(rune('a'+i))), []byte{byte('a' + i), 1, 2, 3}, 0o644)
	}
	ob := &c14Obs{states: map[string]bool{}}
	nexh, nrand, _ := c14Counts(c.Tier)
	switch {
	case c.Index < nexh:
		cap0 := c.Index / 11
		L := c14L(c.Tier)
		// enumerate by DFS; each sequence is replayed from scratch
		probe := newFcEnv(dir, cap0)
		first := probe.next()[c.Index%11]
		probe.cleanup()
		var rec func(seq []fop)
		rec = func(seq []fop) {
			if len(res.Violations) >= 5 {
				return
			}
			runFcSeq(res, dir, cap0, seq, ob)
			if len(seq) >= L {
				return
			}
			// recompute the continuation alphabet by replaying (handles depend on the run)
			e := newFcEnv(dir, cap0)
			ok := true
			core.Protect(func() {
				for _, o := range seq {
					if k, _ := e.step(o); k != "" {
						ok = false
						return
					}
				}
			})
			var nx []fop
			if ok {
				nx = e.next()
			}
			e.cleanup()
			for _, o := range nx {
				rec(append(append([]fop{}, seq...), o))
			}
		}
		if c.Index%11 == 0 {
			runFcSeq(res, dir, cap0, nil, ob)
		}
		rec([]fop{first})
		res.Add("exhaustive_sequences", ob.seqs)
		if c.Index < 2 {
			res.Sample = map[string]any{"case": c.ID(), "kind": "exhaustive", "initial_capacity": cap0, "first_op": first.String(), "sequences": ob.seqs}
		}
	case c.Index < nexh+nrand:
		r := gen.Rng(c.Seed, propStream("C14"), uint64(c.Index))
		for s := 0; s < 125; s++ {
			cap0 := r.IntN(4)
			n := 30 + r.IntN(171)
			e := newFcEnv(dir, cap0)
			var ops []fop
			p := core.Protect(func() {
				for i := 0; i < n; i++ {
					nx := e.next()
					o := nx[r.IntN(len(nx))]
					if r.IntN(3) == 0 { // favour closes so handles do not only accumulate
						for _, cnd := range nx {
							if cnd.Kind == 'c' {
								o = cnd
								break
							}
						}
					}
					ops = append(ops, o)
					pc := e.fc.Cap()
					kind, msg := e.step(o)
					ob.note(e, o, pc)
					if kind != "" {
						res.Violate(kind, "c14-"+kind, i, map[string]any{"initial_capacity": cap0, "ops": fmt.Sprint(ops)}, "capacity %d, %v: %s", cap0, ops, msg)
						return
					}
				}
			})
			if p != nil {
				res.Violate("panic", "c14-panic", len(ops), map[string]any{"initial_capacity": cap0, "ops": fmt.Sprint(ops)}, "capacity %d, %v: panic: %v", cap0, ops, p)
			}
			e.cleanup()
			res.Add("random_sequences", 1)
			if res.Verdict == "violated" {
				break
			}
		}
		if c.Index == nexh {
			res.Sample = map[string]any{"case": c.ID(), "kind": "random", "sequences": 125}
		}
	default:
		if si := c.Index - (nexh + nrand + (map[bool]int{true: 300, false: 40}[c.Tier == "thorough"])); si >= 0 {
			if sj := si - (c14StoreCases(c.Tier) - c14SlowCases(c.Tier)); sj >= 0 {
				c14SlowOpen(c, res, sj)
				return res
			}
			if si%4 == 3 {
				// scripted window: a reader holds a cached handle while another read of that file fails
				c2 := c
				c2.Index = (si / 4) * 8
				runGated(c2, res, "C14")
				res.ID = c.ID()
				res.Add("store_level_gated_cases", 1)
				return res
			}
			c14StoreLevel(c, res, ob)
		} else {
			c14Concurrent(c, res, dir, ob)
		}
	}
	res.Add("steps_checked", ob.steps)
	var st []string
	for s := range ob.states {
		st = append(st, s)
	}
	res.Add("distinct_accounting_states_in_case", int64(len(st)))
	res.Hash = core.HashStrings(fmt.Sprint(c.Index), fmt.Sprint(len(st)))
	if ob.evictedLent {
		res.Flag("evicted-lent-handle")
	}
	if ob.throughZero {
		res.Flag("resize-through-zero")
	}
	res.NonTrivial = ob.evictedLent && ob.throughZero
	return res
}

// c14Concurrent: goroutines use handles while others evict; a handle a goroutine
// still holds must stay usable.
func c14Concurrent(c run.Ctx, res *core.CaseResult, dir string, ob *c14Obs) {
	r := gen.Rng(c.Seed, propStream("C14conc"), uint64(c.Index))
	e := newFcEnv(dir, 1+r.IntN(3))
	e.slowEvict = c.Index%2 == 0
	var wg sync.WaitGroup
	var bad atomic.Value
	var reads, opens, evicts atomic.Int64
	stop := make(chan struct{})
	user := func(seed uint64) {
		defer wg.Done()
		rr := rand.New(rand.NewPCG(seed, 7))
		for i := 0; i < 400; i++ {
			select {
			case <-stop:
				return
			default:
			}
			n := rr.IntN(3)
			f, err := e.fc.Open(e.names[n])
			if err != nil {
				bad.Store(fmt.Sprintf("Open failed: %v", err))
				return
			}
			opens.Add(1)
			for j := 0; j < 1+rr.IntN(4); j++ {
				buf := make([]byte, 4)
				if _, err := f.ReadAt(buf, 0); err != nil {
					bad.Store(fmt.Sprintf("ReadAt on a handle still held (file %c) failed: %v", 'a'+n, err))
					return
				}
				if buf[0] != byte('a'+n) {
					bad.Store(fmt.Sprintf("handle opened for %c reads content of %c", 'a'+n, buf[0]))
					return
				}
				reads.Add(1)
			}
			if err := e.fc.Close(f); err != nil {
				bad.Store(fmt.Sprintf("legitimate Close failed: %v", err))
				return
			}
		}
	}
	evictor := func(seed uint64) {
		defer wg.Done()
		rr := rand.New(rand.NewPCG(seed, 9))
		for i := 0; i < 300; i++ {
			select {
			case <-stop:
				return
			default:
			}
			switch rr.IntN(4) {
			case 0:
				e.fc.Remove(e.names[rr.IntN(3)])
			case 1:
				e.fc.Clear()
			default:
				e.fc.SetCacheSize(rr.IntN(4))
			}
			evicts.Add(1)
		}
	}
	p := core.Protect(func() {
		for g := 0; g < 8; g++ {
			wg.Add(1)
			go user(uint64(c.Index*100 + g))
		}
		for g := 0; g < 3; g++ {
			wg.Add(1)
			go evictor(uint64(c.Index*100 + 50 + g))
		}
		wg.Wait()
	})
	close(stop)
	if p != nil {
		res.Violate("panic", "c14-conc-panic", 0, nil, "concurrent file-cache use panicked: %v", p)
	}
	if b := bad.Load(); b != nil {
		res.Violate("lent-handle-closed-concurrent", "c14-conc-handle", 0, nil, "%s", b)
	}
	// quiescence: nothing lent; descriptors == Len()
	if fds, ln := openFDsUnder(dir), e.fc.Len(); fds >= 0 && fds != ln {
		res.Violate("descriptor-count", "c14-conc-descriptor-count", 0, nil, "at quiescence %d descriptors are open but the cache holds %d files", fds, ln)
	}
	e.fc.Clear()
	if fds := openFDsUnder(dir); fds > 0 {
		res.Violate("descriptor-leak", "c14-conc-descriptor-leak", 0, nil, "%d descriptors still open after Clear with nothing lent", fds)
	}
	res.Add("concurrent_runs", 1)
	res.Add("concurrent_reads_on_held_handles", reads.Load())
	res.Add("concurrent_opens", opens.Load())
	res.Add("concurrent_evictions", evicts.Load())
	ob.evictedLent = ob.evictedLent || evicts.Load() > 0
	ob.throughZero = true
	ob.states[fmt.Sprintf("conc/%d/%d", opens.Load(), evicts.Load())] = true
	if c.Index%10 == 0 {
		res.Sample = map[string]any{"case": c.ID(), "kind": "concurrent", "opens": opens.Load(), "reads_on_held_handles": reads.Load(), "evictor_calls": evicts.Load()}
	}
}

// c14StoreLevel: the cache as used by the store (index lookups, iterator, primary reads).
func c14StoreLevel(c run.Ctx, res *core.CaseResult, ob *c14Obs) {
	r := gen.Rng(c.Seed, propStream("C14store"), uint64(c.Index))
	cfg := gen.Config{Primary: gen.MH, Bits: 8, IndexFileSize: []uint32{40, 100}[r.IntN(2)], PrimaryFileSize: []uint32{60, 150}[r.IntN(2)], FileCache: 1 + r.IntN(2)}
	env, err := core.NewEnv(cfg)
	if err != nil {
		res.Verdict = "inconclusive"
		return
	}
	defer env.Cleanup()
	u := gen.MakeUniverse(r, cfg.Primary, 30+r.IntN(30))
	s, err := env.Open()
	if err != nil {
		res.Violate("open-error", "c14-store-open", 0, nil, "open: %v", err)
		return
	}
	want := map[int][]byte{}
	for k := range u.Keys {
		v := gen.Value(uint64(k+1), 8+r.IntN(30))
		if err := s.Put(append([]byte{}, u.Keys[k].Raw...), append([]byte{}, v...)); err != nil {
			res.Violate("put-error", "c14-store-put", 0, nil, "put: %v", err)
			return
		}
		want[k] = v
		if k%3 == 2 {
			s.Flush()
		}
	}
	s.Flush()
	s.Close()
	s, err = env.Open() // empty pools: every read goes through the file cache
	if err != nil {
		res.Violate("open-error", "c14-store-reopen", 0, nil, "reopen: %v", err)
		return
	}
	var wg sync.WaitGroup
	var bad atomic.Value
	var gets, iters atomic.Int64
	for g := 0; g < 6; g++ {
		wg.Add(1)
		go func(g int) {
			defer wg.Done()
			rr := rand.New(rand.NewPCG(uint64(c.Index), uint64(g)))
			for i := 0; i < 2500 && bad.Load() == nil; i++ {
				k := rr.IntN(len(u.Keys))
				key := append([]byte{}, u.Keys[k].Raw...)
				switch i % 3 {
				case 0:
					v, found, err := s.Get(key)
					if err != nil || !found || string(v) != string(want[k]) {
						bad.Store(fmt.Sprintf("Get(k%d) = found %v, err %v, %d bytes (want %d bytes)", k, found, err, len(v), len(want[k])))
					}
				case 1:
					has, err := s.Has(key)
					if err != nil || !has {
						bad.Store(fmt.Sprintf("Has(k%d) = %v, %v", k, has, err))
					}
				default:
					sz, found, err := s.GetSize(key)
					if err != nil || !found || int(sz) != len(want[k]) {
						bad.Store(fmt.Sprintf("GetSize(k%d) = %d, %v, %v", k, sz, found, err))
					}
				}
				gets.Add(1)
			}
		}(g)
	}
	for g := 0; g < 2; g++ {
		wg.Add(1)
		go func() {
			defer wg.Done()
			for pass := 0; pass < 25 && bad.Load() == nil; pass++ {
				it := s.NewIterator()
				n := 0
				for {
					_, _, err := it.Next()
					if err == io.EOF {
						break
					}
					if err != nil {
						bad.Store(fmt.Sprintf("iterator failed: %v", err))
						return
					}
					n++
				}
				if n != len(u.Keys) {
					bad.Store(fmt.Sprintf("iteration over an unchanging store yielded %d of %d keys", n, len(u.Keys)))
					return
				}
				iters.Add(1)
			}
		}()
	}
	stop := make(chan struct{})
	var rz sync.WaitGroup
	rz.Add(1)
	go func() {
		defer rz.Done()
		sizes := []int{1, 2, 0, 3, 1}
		for i := 0; ; i++ {
			select {
			case <-stop:
				return
			default:
			}
			s.SetFileCacheSize(sizes[i%len(sizes)])
			time.Sleep(200 * time.Microsecond)
		}
	}()
	p := core.Protect(func() { wg.Wait() })
	close(stop)
	rz.Wait()
	if p != nil {
		res.Violate("panic", "c14-store-panic", 0, nil, "panic: %v", p)
	}
	if b := bad.Load(); b != nil {
		res.Violate("store-level-handle", "c14-store-handle", 0, nil, "read-only concurrent use of the store through a tiny file cache failed: %s", b)
	}
	if err := s.Close(); err != nil {
		res.Violate("close-error", "c14-store-close", 0, nil, "Close: %v", err)
	}
	if fds := fdsUnder(env.Root); len(fds) > 0 {
		res.Violate("descriptor-open-after-close", "c14-store-fd-after-close", 0, fds, "%d descriptors still open after Close", len(fds))
	}
	res.Add("store_level_runs", 1)
	res.Add("store_level_lookups", gets.Load())
	res.Add("store_level_iteration_passes", iters.Load())
	ob.evictedLent, ob.throughZero = true, true
	ob.states[fmt.Sprintf("store/%d/%d", gets.Load(), iters.Load())] = true
	if c.Index%10 == 0 {
		res.Sample = map[string]any{"case": c.ID(), "kind": "store-level readers + iterators through a tiny cache", "config": cfg, "keys": len(u.Keys), "lookups": gets.Load(), "iteration_passes": iters.Load()}
	}
}
