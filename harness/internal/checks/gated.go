package checks

import (
	"context"
	"fmt"
	"sync"
	"time"

	"github.com/ipld/go-storethehash/store"

	"verif/harness/internal/conc"
	"verif/harness/internal/core"
	"verif/harness/internal/gen"
	"verif/harness/internal/hookrt"
	"verif/harness/internal/run"
)

// Gated scenarios (DESIGN appendix C): scripted windows a few instructions wide.
// A goroutine is parked at a lock-free hook point while the harness itself drives
// the events that make the window dangerous, then released. Every call is recorded
// and checked like a stress history. Gate expiry => window not attained (inconclusive).

type gctx struct {
	c    run.Ctx
	res  *core.CaseResult
	env  *core.Env
	s    *store.Store
	rt   *hookrt.RT
	u    gen.Universe
	pl   conc.Plan
	mu   sync.Mutex
	recs []conc.Rec
	vid  uint64
	wg   sync.WaitGroup
	note []string
	// afterClose, when set by a scenario, runs after the store was closed and fsck'ed
	afterClose func()
}

const gT = 4 * time.Second

func (g *gctx) do(client int, o conc.COp) conc.Rec {
	pl := conc.Plan{Cfg: g.pl.Cfg, U: g.u, Clients: [][]conc.COp{{o}}}
	_ = pl
	r := conc.Exec1(g.s, g.u, client, o)
	g.mu.Lock()
	g.recs = append(g.recs, r)
	g.mu.Unlock()
	return r
}

func (g *gctx) async(client int, o conc.COp) chan conc.Rec {
	ch := make(chan conc.Rec, 1)
	g.wg.Add(1)
	go func() {
		defer g.wg.Done()
		ch <- g.do(client, o)
	}()
	return ch
}

func (g *gctx) put(k int, vlen int) conc.COp {
	g.vid++
	return conc.COp{Kind: "put", K: k, VID: 0x9000000000 | g.vid, VLen: vlen}
}

func (g *gctx) flush() {
	if err := g.s.Flush(); err != nil {
		g.res.Violate("flush-error", "gated-flush-error", 0, nil, "Flush failed: %v", err)
	}
}

func (g *gctx) reopen(extra ...store.Option) bool {
	if err := g.s.Close(); err != nil {
		g.res.Violate("close-error", "gated-close-error", 0, nil, "Close failed: %v", err)
		return false
	}
	s, err := g.env.Open(extra...)
	if err != nil {
		g.res.Violate("open-error", "gated-open-error", 0, nil, "reopen failed: %v", err)
		return false
	}
	g.s = s
	return true
}

func (g *gctx) gate(hook string, nth int) *hookrt.Gate {
	gt := hookrt.NewGate(hook, nth, gT)
	g.rt.AddGate(gt)
	return gt
}

func (g *gctx) notAttained(why string) {
	if g.res.Verdict == "held" {
		g.res.Verdict = "inconclusive"
		g.res.Note = "window not attained: " + why
	}
	g.res.Add("gated_windows_not_attained", 1)
}

func waitRec(ch chan conc.Rec, d time.Duration) bool {
	select {
	case r := <-ch:
		ch <- r
		return true
	case <-time.After(d):
		return false
	}
}

// sameBucketKeys returns indices of two keys in one bucket (sharing the leading bytes).
func sameBucketPair(u gen.Universe, bits uint8) (int, int, bool) {
	for i := range u.Keys {
		for j := i + 1; j < len(u.Keys); j++ {
			if gen.Bucket(u.Keys[i].Digest, bits) == gen.Bucket(u.Keys[j].Digest, bits) {
				return i, j, true
			}
		}
	}
	return 0, 0, false
}

type gscen struct {
	name string
	run  func(g *gctx)
	cfg  func(cfg *gen.Config)
}

var gatedC05 = []gscen{
	{"G1-reader-after-unlock-vs-put-flush", func(g *gctx) {
		k, j, _ := sameBucketPair(g.u, g.pl.Cfg.Bits)
		g.do(0, g.put(k, 20))
		g.flush()
		if !g.reopen() { // empty pools: the reader takes the disk path
			return
		}
		gt := g.gate("index.get.after-unlock", 1)
		rd := g.async(1, conc.COp{Kind: "get", K: k})
		if !gt.WaitArrived(gT) {
			g.notAttained("reader did not park")
			gt.Open()
			return
		}
		g.do(2, g.put(j, 24))
		g.flush()
		g.do(2, g.put(j, 30))
		g.flush()
		g.res.Flag("window-attained")
		gt.Open()
		waitRec(rd, gT)
	}, nil},
	{"G2-reader-holds-location-across-overwrite-and-flushes", func(g *gctx) {
		k, _, _ := sameBucketPair(g.u, g.pl.Cfg.Bits)
		g.do(0, g.put(k, 20))
		g.flush()
		gt := g.gate("store.get.after-lookup", 1)
		rd := g.async(1, conc.COp{Kind: "get", K: k})
		if !gt.WaitArrived(gT) {
			g.notAttained("reader did not park")
			gt.Open()
			return
		}
		g.do(0, g.put(k, 33))
		g.flush()
		g.do(0, g.put(k, 12))
		g.flush()
		g.res.Flag("window-attained")
		gt.Open()
		waitRec(rd, gT)
	}, nil},
	{"G3-put-parked-after-lookup-vs-remove", func(g *gctx) {
		k, _, _ := sameBucketPair(g.u, g.pl.Cfg.Bits)
		g.do(0, g.put(k, 20))
		if g.c.Index%2 == 0 {
			g.flush()
		}
		gt := g.gate("store.put.after-lookup", 1)
		pw := g.async(1, g.put(k, 25))
		if !gt.WaitArrived(gT) {
			g.notAttained("put did not park")
			gt.Open()
			return
		}
		rm := g.async(2, conc.COp{Kind: "rm", K: k})
		// with per-key serialization the Remove waits for the Put; without it, it completes now
		if waitRec(rm, 30*time.Millisecond) {
			g.res.Flag("remove-completed-inside-put")
		}
		g.res.Flag("window-attained")
		gt.Open()
		waitRec(pw, gT)
		waitRec(rm, gT)
	}, nil},
	{"G4-put-parked-remove-then-put-of-key-sharing-prefix", func(g *gctx) {
		k, j, _ := sameBucketPair(g.u, g.pl.Cfg.Bits)
		g.do(0, g.put(k, 20))
		g.flush()
		gt := g.gate("store.put.after-lookup", 1)
		pw := g.async(1, g.put(k, 25))
		if !gt.WaitArrived(gT) {
			g.notAttained("put did not park")
			gt.Open()
			return
		}
		rm := g.async(2, conc.COp{Kind: "rm", K: k})
		waitRec(rm, 20*time.Millisecond)
		pj := g.async(3, g.put(j, 18))
		waitRec(pj, 50*time.Millisecond)
		g.res.Flag("window-attained")
		gt.Open()
		waitRec(pw, gT)
		waitRec(rm, gT)
		waitRec(pj, gT)
		g.do(4, conc.COp{Kind: "get", K: j})
	}, nil},
	{"G5-two-puts-of-an-absent-key", func(g *gctx) {
		k, _, _ := sameBucketPair(g.u, g.pl.Cfg.Bits)
		gt1 := g.gate("store.put.after-primary", 1)
		gt2 := g.gate("store.put.after-primary", 2)
		p1 := g.async(1, g.put(k, 20))
		if !gt1.WaitArrived(gT) {
			g.notAttained("first put did not park")
			gt1.Open()
			gt2.Open()
			return
		}
		p2 := g.async(2, g.put(k, 27))
		if gt2.WaitArrived(40 * time.Millisecond) {
			g.res.Flag("both-puts-inside")
		}
		g.res.Flag("window-attained")
		gt1.Open()
		gt2.Open()
		waitRec(p1, gT)
		waitRec(p2, gT)
		g.do(3, conc.COp{Kind: "get", K: k})
		g.flush()
		g.do(3, conc.COp{Kind: "get", K: k})
	}, nil},
	{"G6-put-parked-after-primary-across-flush-and-rollover", func(g *gctx) {
		k, j, _ := sameBucketPair(g.u, g.pl.Cfg.Bits)
		g.do(0, g.put(j, 30))
		gt := g.gate("store.put.after-primary", 1)
		pw := g.async(1, g.put(k, 40))
		if !gt.WaitArrived(gT) {
			g.notAttained("put did not park")
			gt.Open()
			return
		}
		g.flush() // writes the parked put's record at its predicted location, possibly rolling files
		g.do(2, g.put(j, 35))
		g.flush()
		g.res.Flag("window-attained")
		gt.Open()
		waitRec(pw, gT)
		g.do(3, conc.COp{Kind: "get", K: k})
		g.flush()
		g.do(3, conc.COp{Kind: "get", K: k})
		g.do(3, conc.COp{Kind: "size", K: k})
	}, func(cfg *gen.Config) { cfg.PrimaryFileSize = []uint32{16, 50, 80}[int(cfg.Bits)%3] }},
}

// lowUseSetup fills a primary file so that key k's record sits in a non-current
// low-use file and is a relocation candidate.
func (g *gctx) lowUseSetup(k int) bool {
	others := []int{}
	for i := range g.u.Keys {
		if i != k {
			others = append(others, i)
		}
	}
	g.do(0, g.put(k, 20))
	for i := 0; i < 3 && i < len(others); i++ {
		g.do(0, g.put(others[i], 30))
	}
	g.flush()
	for i := 0; i < 3 && i < len(others); i++ {
		g.do(0, conc.COp{Kind: "rm", K: others[i]})
	}
	// roll on: later files hold the other keys; keep writing until k's file is not current any more
	for i := 3; i < len(others); i++ {
		g.do(0, g.put(others[i], 40))
		g.flush()
	}
	mp := core.MH(g.s)
	last := others[len(others)-1]
	for i := 0; i < 40 && mp != nil && mp.VerifFileNum() < 2; i++ {
		g.do(0, g.put(last, 60+i%7))
		g.flush()
	}
	g.flush()
	return true
}

var gatedC06 = []gscen{
	{"G7-reader-after-unlock-vs-index-gc", func(g *gctx) {
		k, j, _ := sameBucketPair(g.u, g.pl.Cfg.Bits)
		g.do(0, g.put(k, 20))
		g.flush()
		if !g.reopen() {
			return
		}
		gt := g.gate("index.get.after-unlock", 1)
		rd := g.async(1, conc.COp{Kind: "get", K: k})
		if !gt.WaitArrived(gT) {
			g.notAttained("reader did not park")
			gt.Open()
			return
		}
		// supersede the list the reader located, push it into a non-current index file, reap it
		for i := 0; i < 4; i++ {
			g.do(2, g.put(j, 20+i))
			g.flush()
		}
		before := g.rt.Counts()
		for i := 0; i < 2; i++ {
			g.s.Index().VerifGC(context.Background(), i == 0)
		}
		after := g.rt.Counts()
		if after["index.gc.reap.before-mark"]+after["index.gc.before-remove"]+after["index.gc.free.before-remove"]+after["index.gc.reap.before-truncate"] > before["index.gc.reap.before-mark"]+before["index.gc.before-remove"]+before["index.gc.free.before-remove"]+before["index.gc.reap.before-truncate"] {
			g.res.Flag("window-attained")
		} else {
			g.notAttained("index GC did not reclaim the superseded list")
		}
		gt.Open()
		waitRec(rd, gT)
	}, func(cfg *gen.Config) { cfg.IndexFileSize = 40 }},
	{"G8-reader-holds-location-vs-overwrite-flush-primary-gc", func(g *gctx) {
		k, _, _ := sameBucketPair(g.u, g.pl.Cfg.Bits)
		g.do(0, g.put(k, 20))
		g.flush()
		kind := []string{"get", "has", "size"}[g.c.Index%3]
		hook := map[string]string{"get": "store.get.after-lookup", "has": "store.has.after-lookup", "size": "store.getsize.after-lookup"}[kind]
		gt := g.gate(hook, 1)
		rd := g.async(1, conc.COp{Kind: kind, K: k})
		if !gt.WaitArrived(gT) {
			g.notAttained("reader did not park")
			gt.Open()
			return
		}
		g.do(0, g.put(k, 33)) // supersedes the location the reader holds
		g.flush()
		for i := 0; i < 3; i++ { // make the old file non-current
			g.do(0, g.put((k+1+i)%len(g.u.Keys), 40))
			g.flush()
		}
		mp := core.MH(g.s)
		before := g.rt.Count("mh.gc.freelist.before-mark")
		mp.GC(context.Background(), 50)
		mp.GC(context.Background(), 50)
		if g.rt.Count("mh.gc.freelist.before-mark") > before {
			g.res.Flag("window-attained")
		} else {
			g.notAttained("primary GC did not reclaim the superseded record")
		}
		gt.Open()
		waitRec(rd, gT)
	}, func(cfg *gen.Config) { cfg.PrimaryFileSize = 60 }},
	{"G9-relocation-parked-vs-overwrite", func(g *gctx) {
		k := g.c.Index % len(g.u.Keys)
		g.lowUseSetup(k)
		gt := g.gate("mh.gc.relocate.read", 1)
		mp := core.MH(g.s)
		done := make(chan struct{})
		go func() { mp.GC(context.Background(), 1); close(done) }()
		if !gt.WaitArrived(2 * time.Second) {
			g.notAttained("no relocation happened")
			gt.Open()
			<-done
			return
		}
		reloc, _ := g.rt.Events(), 0
		_ = reloc
		// overwrite every key that may be the one being relocated
		for i := range g.u.Keys {
			g.do(1, g.put(i, 21))
		}
		g.res.Flag("window-attained")
		gt.Open()
		<-done
		g.flush()
		mp.GC(context.Background(), 1)
		g.flush()
	}, func(cfg *gen.Config) { cfg.PrimaryFileSize = 200 }},
	{"G10-relocation-parked-vs-remove-and-put-of-prefix-sharing-key", func(g *gctx) {
		k := g.c.Index % len(g.u.Keys)
		g.lowUseSetup(k)
		gt := g.gate("mh.gc.relocate.read", 1)
		mp := core.MH(g.s)
		done := make(chan struct{})
		go func() { mp.GC(context.Background(), 1); close(done) }()
		if !gt.WaitArrived(2 * time.Second) {
			g.notAttained("no relocation happened")
			gt.Open()
			<-done
			return
		}
		for i := range g.u.Keys {
			g.do(1, conc.COp{Kind: "rm", K: i})
		}
		for i := range g.u.Keys {
			if i%2 == 1 {
				g.do(1, g.put(i, 19))
			}
		}
		g.res.Flag("window-attained")
		gt.Open()
		<-done
		g.flush()
		mp.GC(context.Background(), 1)
		g.flush()
	}, func(cfg *gen.Config) { cfg.PrimaryFileSize = 200 }},
	{"G25-reader-after-unlock-vs-index-gc-marking-its-list-deleted", func(g *gctx) {
		// three keys of three different buckets: a (the reader's), b (its list follows a's in the file), c (rolls the index on)
		bk := func(i int) uint32 { return gen.Bucket(g.u.Keys[i].Digest, g.pl.Cfg.Bits) }
		a, b, c := 0, -1, -1
		for i := 1; i < len(g.u.Keys); i++ {
			if b < 0 && bk(i) != bk(a) {
				b = i
			} else if b >= 0 && c < 0 && bk(i) != bk(a) && bk(i) != bk(b) {
				c = i
			}
		}
		if b < 0 || c < 0 {
			g.res.Add("gated_windows_not_applicable_to_universe", 1) // fewer than three buckets: nothing to script
			return
		}
		g.do(0, g.put(a, 20))
		g.flush()
		g.do(0, g.put(b, 20))
		g.flush() // index file 0: [list of a's bucket][list of b's bucket]
		if !g.reopen() {
			return
		}
		gt := g.gate("index.get.after-unlock", 1)
		rd := g.async(1, conc.COp{Kind: "get", K: a})
		if !gt.WaitArrived(gT) {
			g.notAttained("reader did not park")
			gt.Open()
			return
		}
		// supersede the list the reader located and make its file non-current
		g.do(2, g.put(a, 24))
		g.flush()
		for i := 0; i < 30 && g.s.Index().VerifFileNum() < 1; i++ {
			g.do(2, g.put(c, 30+i))
			g.flush()
		}
		m0 := g.rt.Count("index.gc.reap.before-mark")
		g.s.Index().VerifGC(context.Background(), false)
		if g.rt.Count("index.gc.reap.before-mark") > m0 {
			g.res.Flag("window-attained")
		} else {
			g.notAttained("the collector did not mark the superseded list deleted")
		}
		gt.Open()
		waitRec(rd, gT)
		g.do(3, conc.COp{Kind: "get", K: a})
		g.do(3, conc.COp{Kind: "get", K: b})
	}, func(cfg *gen.Config) { cfg.IndexFileSize = 150; cfg.Bits = 12 }},
	{"G24-index-free-file-scan-parked-vs-flushes-rolling-the-index-files", func(g *gctx) {
		for i := range g.u.Keys {
			g.do(0, g.put(i, 20))
			g.flush()
		}
		gt := g.gate("index.gc.free.scanned", 1)
		done := make(chan struct{})
		go func() { g.s.Index().VerifGC(context.Background(), true); close(done) }()
		if !gt.WaitArrived(gT) {
			g.notAttained("the collector did not reach the end of its free-file scan")
			gt.Open()
			<-done
			return
		}
		// the collector holds its scan result; flushes create, fill and leave several more index files
		f0 := g.s.Index().VerifFileNum()
		for i := 0; i < 8; i++ {
			g.do(1, g.put(i%len(g.u.Keys), 21+i))
			g.flush()
		}
		if g.s.Index().VerifFileNum() >= f0+2 {
			g.res.Flag("window-attained")
		} else {
			g.notAttained("the index did not roll over twice while the collector was parked")
		}
		gt.Open()
		<-done
		g.flush()
		for i := range g.u.Keys {
			g.do(2, conc.COp{Kind: "get", K: i})
		}
	}, func(cfg *gen.Config) { cfg.IndexFileSize = 40 }},
	{"G11-freelist-handover-parked-vs-removals", func(g *gctx) {
		for i := range g.u.Keys {
			g.do(0, g.put(i, 20))
		}
		g.flush()
		g.do(0, conc.COp{Kind: "rm", K: 0})
		g.flush()
		gt := g.gate("fl.togc.renamed", 1)
		mp := core.MH(g.s)
		done := make(chan struct{})
		go func() { mp.GC(context.Background(), 50); close(done) }()
		if !gt.WaitArrived(2 * time.Second) {
			g.notAttained("hand-over not reached")
			gt.Open()
			<-done
			return
		}
		// producers keep freeing while the file is between rename and reopen (no Flush: it needs the lock GC holds)
		for i := 1; i < len(g.u.Keys); i++ {
			if i%2 == 0 {
				g.do(1, conc.COp{Kind: "rm", K: i})
			} else {
				g.do(1, g.put(i, 26))
			}
		}
		g.res.Flag("window-attained")
		gt.Open()
		<-done
		g.flush()
		mp.GC(context.Background(), 50)
		g.flush()
	}, func(cfg *gen.Config) { cfg.PrimaryFileSize = 100 }},
}

// runGated runs one scripted interleaving scenario.
func runGated(c run.Ctx, res *core.CaseResult, prop string) *core.CaseResult {
	scens := gatedC05
	if prop == "C06" {
		scens = gatedC06
	}
	var cons *c13Cons
	switch prop {
	case "C13":
		scens = gatedC13
		cons = &c13Cons{}
	case "C14":
		scens = gatedC14
	case "C17":
		scens = gatedC17
	}
	sc := scens[(c.Index/8)%len(scens)]
	r := gen.Rng(c.Seed, propStream(prop+"gated"), uint64(c.Index))
	cfg := gen.Config{Primary: gen.MH, Bits: []uint8{8, 9, 12}[r.IntN(3)], IndexFileSize: []uint32{100, 1024}[r.IntN(2)], PrimaryFileSize: []uint32{300, 4096}[r.IntN(2)], FileCache: []int{0, 2, 512}[r.IntN(3)]}
	if prop == "C05" && r.IntN(3) == 0 {
		cfg.Primary = gen.CID
	}
	if sc.cfg != nil {
		sc.cfg(&cfg)
	}
	// a universe with at least one bucket-sharing pair
	var u gen.Universe
	for {
		u = gen.MakeUniverse(r, cfg.Primary, 5+r.IntN(4))
		if len(u.Keys) < 3 {
			continue // (the generator may drop keys; the scripts address at least three)
		}
		if prop != "" {
			// these scripts lay records out in files of a few hundred bytes: keys must fit several times
			long := false
			for _, k := range u.Keys {
				if len(k.Raw) > 90 {
					long = true
				}
			}
			if long {
				continue
			}
		}
		if _, _, ok := sameBucketPair(u, cfg.Bits); ok {
			break
		}
	}
	env, err := core.NewEnv(cfg)
	if err != nil {
		res.Verdict = "inconclusive"
		return res
	}
	defer env.Cleanup()
	rt := hookrt.New()
	rt.LogEvents = true
	rt.NeedGoid = true
	rt.Install()
	defer hookrt.Uninstall()
	if cons != nil {
		cons.install(rt, env)
	}
	s, err := env.Open()
	if err != nil {
		res.Violate("open-error", "gated-open-error", 0, nil, "open: %v", err)
		return res
	}
	g := &gctx{c: c, res: res, env: env, s: s, rt: rt, u: u, pl: conc.Plan{Cfg: cfg, U: u}}
	p := core.Protect(func() { sc.run(g) })
	rt.ClearGates()
	g.wg.Wait()
	if p != nil {
		res.Violate("panic", "gated-panic:"+sc.name, 0, nil, "scenario %s panicked: %v", sc.name, p)
	}
	sigp := "c" + prop[1:] + "-gated:" + sc.name + ":"
	var finals []conc.Rec
	p = core.Protect(func() {
		g.flush()
		finals = conc.FinalReads(g.pl, g.s)
		if err := g.s.Close(); err != nil {
			res.Violate("close-error", sigp+"close-error", 0, nil, "Close failed: %v", err)
		}
		if l, err := env.Fsck(); err == nil {
			b := l.ReplayBuckets()
			if l.Snapshot != nil && len(l.Snapshot) == l.NumBuckets() {
				b = l.Snapshot
			}
			ps, _ := l.Check(b)
			for i, pr := range ps {
				if i >= 3 {
					break
				}
				res.Violate("fsck", sigp+"fsck-"+pr.Clause, 0, nil, "[after gated scenario %s] %s", sc.name, pr)
			}
		}
		if cons != nil {
			cons.final(res, env, sigp)
		}
		if g.afterClose != nil {
			g.afterClose()
		}
	})
	if p != nil {
		res.Violate("panic", sigp+"panic-at-quiescence", 0, nil, "panic at quiescence: %v", p)
	}
	cs := conc.Check(g.pl, g.recs, finals, res, sigp, nil)
	res.Add("gated_scenarios_run", 1)
	res.Add("gated:"+sc.name, 1)
	if res.HasFlag("window-attained") {
		res.Add("gated_windows_attained", 1)
		res.Add("gated_attained:"+sc.name, 1)
	}
	res.Add("operations_recorded", int64(len(g.recs)))
	res.Add("keys_ok", int64(cs.Ok))
	res.Add("keys_illegal", int64(cs.Illegal))
	res.Hash = core.HashStrings(sc.name, conc.InterleavingHash(rt.Events(), nil))
	res.NonTrivial = res.HasFlag("window-attained")
	if (c.Index/8) < len(scens) || res.Verdict == "violated" {
		var names []string
		for i, e := range rt.Events() {
			if i >= 60 {
				break
			}
			names = append(names, fmt.Sprintf("g%d:%s", e.G, e.Name))
		}
		res.Sample = map[string]any{"case": c.ID(), "gated_scenario": sc.name, "config": cfg, "window_attained": res.HasFlag("window-attained"), "flags": res.Flags, "events": names}
	}
	return res
}
