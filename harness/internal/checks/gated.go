package checks

import (
	"verif/harness/internal/core"
	"verif/harness/internal/run"
)

// runGated runs one scripted interleaving scenario (DESIGN appendix C).
func runGated(c run.Ctx, res *core.CaseResult, prop string) *core.CaseResult {
	runConc(c, genConcCase(c, prop, prop == "C06"), res, "c"+prop[1:]+"-", true)
	return res
}
