package checks

import (
	"verif/harness/internal/core"
	"verif/harness/internal/gen"
	"verif/harness/internal/hookrt"
	"verif/harness/internal/run"
	"verif/harness/internal/seq"
)

func init() {
	run.Register(&run.Check{
		ID:    "C01",
		Level: "exploration",
		Cases: func(tier string) int { return tierN(tier, 6000, 150000) + c01ExhShards },
		Run: func(c run.Ctx) *core.CaseResult {
			if n := tierN(c.Tier, 6000, 150000); c.Index >= n {
				return runC01Exhaustive(c, c.Index-n)
			}
			return runC01(c)
		},
		Rule: "case = (configuration, hostile key universe, sequential history of 80-250 calls) drawn from PRNG(seed,case index); " +
			"non-trivial iff the run observed >=2 put keys sharing a bucket AND an overwrite or removal of a present key AND (an index or primary file rollover OR a read of a not yet flushed key); " +
			"distinct = distinct hash of (configuration, digests, operations). Bounded-exhaustive family (last 32 cases): ALL histories up to length L (quick 4, thorough 5) over {Put(k,v1), Put(k,v2), Put(k,empty), Remove(k), Get(k)} x 3 keys of one bucket sharing a long stored prefix, plus Flush, on two configurations (multihash primary with 40/50-byte file limits, CID primary), each history compared call by call with the model and probed at the end",
		Assumptions: []string{
			"keys satisfy the statement's precondition (digests >= 4 bytes, none a proper prefix of another); the generator enforces it",
			"the reference map (internal/model) is the specification of Put/Get/Has/GetSize/Remove/iteration",
			"finite sample of histories and configurations; 24-bit indexes only in a few cases",
		},
	})
}

func c01Config(c run.Ctx) (gen.Config, *gen.Universe, []seq.Op) {
	prop := c.Prop
	if prop == "" {
		prop = "C01"
	}
	r := gen.Rng(c.Seed, propStream(prop), uint64(c.Index))
	maxBits := uint8(20)
	cfg := gen.PickConfig(r, false, r.IntN(4) != 0, maxBits)
	if c.Index%240 == 77 {
		cfg.Bits = 24
	}
	nk := 4 + r.IntN(37)
	u := gen.MakeUniverse(r, cfg.Primary, nk)
	p := seq.Profile{N: 80 + r.IntN(171), Keys: len(u.Keys), Iter: true}
	switch r.IntN(8) {
	case 0:
		p.FlushNever = true
	case 1:
		p.FlushEvery = true
	}
	if cfg.Bits == 24 {
		p.N = 60
	}
	ops := seq.GenOps(r, p)
	return cfg, &u, ops
}

func runC01(c run.Ctx) *core.CaseResult {
	cfg, u, ops := c01Config(c)
	res := &core.CaseResult{ID: c.ID(), Verdict: "held"}
	env, err := core.NewEnv(cfg)
	if err != nil {
		res.Verdict = "inconclusive"
		res.Note = err.Error()
		return res
	}
	defer env.Cleanup()
	rt := hookrt.New()
	rt.Install()
	defer hookrt.Uninstall()
	rn := seq.NewRunner(env, *u, rt, res, seq.Opts{})
	rn.RunHistory(ops)
	rn.ObserveFlags(ops)
	res.Hash = caseHash(cfg, *u, ops)
	res.NonTrivial = res.HasFlag("shared-bucket") && (res.HasFlag("overwrite") || res.HasFlag("remove-present")) &&
		(res.HasFlag("index-rollover") || res.HasFlag("primary-rollover") || res.HasFlag("unflushed-read"))
	if c.Index < 3 || res.Verdict == "violated" {
		res.Sample = sampleOf(c, cfg, *u, ops)
	}
	res.Add("calls_total", int64(len(ops)))
	res.Add("cfg_primary_"+cfg.Primary, 1)
	if cfg.Immutable {
		res.Add("cfg_immutable", 1)
	}
	return res
}

// ---- bounded-exhaustive family: all short histories over three colliding keys

const c01ExhShards = 32 // 16 first symbols x 2 configurations

func c01ExhL(tier string) int {
	if tier == "thorough" {
		return 5
	}
	return 4
}

func c01ExhAlphabet() []seq.Op {
	var out []seq.Op
	for k := 0; k < 3; k++ {
		out = append(out,
			seq.Op{Kind: "put", K: k, VID: 1, VLen: 5},
			seq.Op{Kind: "put", K: k, VID: 2, VLen: 9},
			seq.Op{Kind: "put", K: k, VLen: 0},
			seq.Op{Kind: "rm", K: k},
			seq.Op{Kind: "get", K: k})
	}
	return append(out, seq.Op{Kind: "flush"})
}

func runC01Exhaustive(c run.Ctx, shard int) *core.CaseResult {
	res := &core.CaseResult{ID: c.ID(), Verdict: "held"}
	alpha := c01ExhAlphabet()
	first := alpha[shard%16]
	cfg := gen.Config{Primary: gen.MH, Bits: 8, IndexFileSize: 40, PrimaryFileSize: 50, FileCache: 2}
	if shard >= 16 {
		cfg = gen.Config{Primary: gen.CID, Bits: 12, IndexFileSize: 1024, PrimaryFileSize: gen.DefaultFileSize, FileCache: 512}
	}
	// three digests of one bucket sharing a long prefix: they differ in the last byte(s) only
	base := []byte{0x5a, 0x10, 0x33, 0x33, 0x33, 0x33, 0x33, 0x33}
	mk := func(tail ...byte) []byte { return append(append([]byte{}, base...), tail...) }
	r := gen.Rng(1, 77, uint64(shard))
	var u gen.Universe
	for _, d := range [][]byte{mk(0x01, 0x01), mk(0x01, 0x02), mk(0x02, 0x01)} {
		u.Keys = append(u.Keys, gen.Key{Digest: d, Raw: gen.RawKey(cfg.Primary, r, d)})
	}
	u.Desc = "3 keys of one bucket sharing an 8-9 byte prefix"
	L := c01ExhL(c.Tier)
	rt := hookrt.New()
	rt.Install()
	defer hookrt.Uninstall()
	var count int64
	var rec func(hist []seq.Op)
	rec = func(hist []seq.Op) {
		if len(res.Violations) >= 3 {
			return
		}
		env, err := core.NewEnv(cfg)
		if err != nil {
			return
		}
		sub := &core.CaseResult{}
		rn := seq.NewRunner(env, u, rt, sub, seq.Opts{})
		rn.RunHistory(hist)
		env.Cleanup()
		count++
		for i, v := range sub.Violations {
			if i >= 1 {
				break
			}
			res.Violate(v.Kind, v.Sig, v.Step, opsStrings(hist, 10), "exhaustive history %v on %s: %s", opsStrings(hist, 10), cfg, v.Msg)
		}
		if len(hist) >= L {
			return
		}
		for _, o := range alpha {
			if o.Kind == "flush" && hist[len(hist)-1].Kind == "flush" {
				continue
			}
			rec(append(append([]seq.Op{}, hist...), o))
		}
	}
	rec([]seq.Op{first})
	res.Add("exhaustive_histories", count)
	res.Add("calls_total", count*int64(L))
	res.Hash = core.HashStrings("exh", cfg.String(), first.String())
	res.NonTrivial = true
	res.Flag("exhaustive-family")
	if shard == 0 || shard == 16 || res.Verdict == "violated" {
		res.Sample = map[string]any{"case": c.ID(), "kind": "bounded-exhaustive", "config": cfg, "keys": []string{"5a10333333333333 0101", "..0102", "..0201"}, "first_op": first.String(), "max_length": L, "histories": count}
	}
	return res
}
