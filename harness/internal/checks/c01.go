package checks

import (
	"verif/harness/internal/core"
	"verif/harness/internal/gen"
	"verif/harness/internal/hookrt"
	"verif/harness/internal/run"
	"verif/harness/internal/seq"
)

func init() {
	run.Register(&run.Check{
		ID:    "C01",
		Level: "exploration",
		Cases: func(tier string) int { return tierN(tier, 6000, 150000) },
		Run:   runC01,
		Rule: "case = (configuration, hostile key universe, sequential history of 80-250 calls) drawn from PRNG(seed,case index); " +
			"non-trivial iff the run observed >=2 put keys sharing a bucket AND an overwrite or removal of a present key AND (an index or primary file rollover OR a read of a not yet flushed key); " +
			"distinct = distinct hash of (configuration, digests, operations)",
		Assumptions: []string{
			"keys satisfy the statement's precondition (digests >= 4 bytes, none a proper prefix of another); the generator enforces it",
			"the reference map (internal/model) is the specification of Put/Get/Has/GetSize/Remove/iteration",
			"finite sample of histories and configurations; 24-bit indexes only in a few cases",
		},
	})
}

func c01Config(c run.Ctx) (gen.Config, *gen.Universe, []seq.Op) {
	prop := c.Prop
	if prop == "" {
		prop = "C01"
	}
	r := gen.Rng(c.Seed, propStream(prop), uint64(c.Index))
	maxBits := uint8(20)
	cfg := gen.PickConfig(r, false, r.IntN(4) != 0, maxBits)
	if c.Index%240 == 77 {
		cfg.Bits = 24
	}
	nk := 4 + r.IntN(37)
	u := gen.MakeUniverse(r, cfg.Primary, nk)
	p := seq.Profile{N: 80 + r.IntN(171), Keys: len(u.Keys), Iter: true}
	switch r.IntN(8) {
	case 0:
		p.FlushNever = true
	case 1:
		p.FlushEvery = true
	}
	if cfg.Bits == 24 {
		p.N = 60
	}
	ops := seq.GenOps(r, p)
	return cfg, &u, ops
}

func runC01(c run.Ctx) *core.CaseResult {
	cfg, u, ops := c01Config(c)
	res := &core.CaseResult{ID: c.ID(), Verdict: "held"}
	env, err := core.NewEnv(cfg)
	if err != nil {
		res.Verdict = "inconclusive"
		res.Note = err.Error()
		return res
	}
	defer env.Cleanup()
	rt := hookrt.New()
	rt.Install()
	defer hookrt.Uninstall()
	rn := seq.NewRunner(env, *u, rt, res, seq.Opts{})
	rn.RunHistory(ops)
	rn.ObserveFlags(ops)
	res.Hash = caseHash(cfg, *u, ops)
	res.NonTrivial = res.HasFlag("shared-bucket") && (res.HasFlag("overwrite") || res.HasFlag("remove-present")) &&
		(res.HasFlag("index-rollover") || res.HasFlag("primary-rollover") || res.HasFlag("unflushed-read"))
	if c.Index < 3 || res.Verdict == "violated" {
		res.Sample = sampleOf(c, cfg, *u, ops)
	}
	res.Add("calls_total", int64(len(ops)))
	res.Add("cfg_primary_"+cfg.Primary, 1)
	if cfg.Immutable {
		res.Add("cfg_immutable", 1)
	}
	return res
}
