package checks

import (
	"math/rand/v2"

	"verif/harness/internal/core"
	"verif/harness/internal/gen"
	"verif/harness/internal/hookrt"
	"verif/harness/internal/run"
	"verif/harness/internal/seq"
)

// seqCase is a generated sequential case.
type seqCase struct {
	cfg gen.Config
	u   gen.Universe
	ops []seq.Op
}

func runSeq(c run.Ctx, sc seqCase, opt seq.Opts, nontrivial func(*core.CaseResult) bool) *core.CaseResult {
	res := &core.CaseResult{ID: c.ID(), Verdict: "held"}
	env, err := core.NewEnv(sc.cfg)
	if err != nil {
		res.Verdict = "inconclusive"
		res.Note = err.Error()
		return res
	}
	defer env.Cleanup()
	rt := hookrt.New()
	rt.Install()
	defer hookrt.Uninstall()
	rn := seq.NewRunner(env, sc.u, rt, res, opt)
	rn.RunHistory(sc.ops)
	rn.ObserveFlags(sc.ops)
	res.Hash = caseHash(sc.cfg, sc.u, sc.ops)
	res.NonTrivial = nontrivial(res)
	if res.Verdict == "violated" {
		res.Sample = sampleOfN(c, sc.cfg, sc.u, sc.ops, 1000)
	} else if c.Index < 3 {
		res.Sample = sampleOf(c, sc.cfg, sc.u, sc.ops)
	}
	res.Add("calls_total", int64(len(sc.ops)))
	res.Add("cfg_primary_"+sc.cfg.Primary, 1)
	return res
}

func smallMHConfig(r *rand.Rand) gen.Config {
	cfg := gen.PickConfig(r, true, true, 17)
	cfg.Immutable = r.IntN(8) == 0
	return cfg
}

// ------------------------------------------------------------------ C02

func init() {
	run.Register(&run.Check{
		ID:    "C02",
		Level: "exploration",
		Cases: func(tier string) int { return tierN(tier, 1600, 24000) },
		Run:   runC02,
		Rule: "case = (configuration, key universe, history with Close/reopen at arbitrary positions and GC cycles before closes); at every Close the closed directory is recovered through the snapshot path, the rescan path (snapshot deleted) and the rescan path (snapshot of wrong size) and all three are compared with the model and with each other bucket by bucket; " +
			"non-trivial iff >=1 reopen triple was compared AND >=2 keys shared a bucket AND (a removal of a present key or an overwrite) happened; distinct = hash of (configuration, digests, operations)",
		Assumptions: []string{
			"same configuration on reopen (C09 covers changed configurations)",
			"the history continues on one of the three recovered variants chosen by the PRNG",
			"GC cycles inside these histories are preceded by a flush (the GC-before-flush behaviour belongs to C04)",
		},
	})
}

func runC02(c run.Ctx) *core.CaseResult {
	r := gen.Rng(c.Seed, propStream("C02"), uint64(c.Index))
	cfg := gen.PickConfig(r, false, r.IntN(5) != 0, 17)
	if c.Index%400 == 131 {
		cfg.Bits = 24
	}
	u := gen.MakeUniverse(r, cfg.Primary, 4+r.IntN(30))
	p := seq.Profile{N: 60 + r.IntN(140), Keys: len(u.Keys), Iter: true, Reopen: true, GC: cfg.Primary == gen.MH, FlushBeforeGC: true, GCLimit: true, RemoveHeavy: r.IntN(2) == 0}
	if cfg.Bits == 24 {
		p.N = 40
	}
	ops := seq.GenOps(r, p)
	// make sure there is at least one reopen, at a PRNG-chosen position
	pos := r.IntN(len(ops))
	ops = append(ops[:pos], append([]seq.Op{{Kind: "reopen", A: r.IntN(3), B: r.IntN(3)}}, ops[pos:]...)...)
	if r.IntN(4) == 0 {
		ops = append([]seq.Op{{Kind: "reopen", A: r.IntN(3), B: 1}}, ops...) // Close right after open
	}
	return runSeq(c, seqCase{cfg, u, ops}, seq.Opts{TripleReopen: true, FsckAtFlush: false, FinalReopen: true},
		func(res *core.CaseResult) bool {
			return res.Stats["reopen_triples"] > 0 && res.HasFlag("shared-bucket") && (res.HasFlag("remove-present") || res.HasFlag("overwrite"))
		})
}

// ------------------------------------------------------------------ C04

func init() {
	run.Register(&run.Check{
		ID:    "C04",
		Level: "exploration",
		Cases: func(tier string) int { return tierN(tier, 8000, 160000) },
		Run:   runC04,
		Rule: "case = (multihash-primary configuration with small file limits, key universe, history interleaved with primary GC cycles (low-use threshold from {1,25,50,74,85,100}) and index GC cycles (scan-free on/off), with and without a preceding flush, some stopped midway by a synthetic deadline and resumed later); every key is probed after every cycle and the history ends with reopen; " +
			"non-trivial iff some cycle observably did work (marked/merged/truncated/unlinked an index or primary record or file, applied freelist entries or relocated a record) AND >=2 keys shared a bucket; distinct = hash of (configuration, digests, operations)",
		Assumptions: []string{
			"GC cycles are driven synchronously by the harness (MultihashPrimary.GC and the verif-tagged index GC wrapper); concurrent GC is C06",
			"time limits are modelled by a context that reports DeadlineExceeded from the n-th GC hook point on",
		},
	})
}

func c04Case(c run.Ctx, prop string) seqCase {
	r := gen.Rng(c.Seed, propStream(prop), uint64(c.Index))
	cfg := smallMHConfig(r)
	u := gen.MakeUniverse(r, cfg.Primary, 4+r.IntN(26))
	p := seq.Profile{N: 80 + r.IntN(220), Keys: len(u.Keys), Iter: r.IntN(2) == 0, GC: true, GCLimit: true, Reopen: r.IntN(3) == 0, RemoveHeavy: true, NoHuge: true}
	p.FlushBeforeGC = c.Index%2 == 0 // avoid-class / trigger-class of finding C04-F1
	p.NoPrimLimit = c.Index%2 == 0
	ops := seq.GenOps(r, p)
	return seqCase{cfg, u, ops}
}

func gcDidWork(res *core.CaseResult) bool {
	for _, f := range []string{"gc-relocated", "gc-freelist-applied", "gc-primary-truncated", "gc-primary-unlinked", "gc-index-marked", "gc-index-truncated", "gc-index-unlinked"} {
		if res.HasFlag(f) {
			return true
		}
	}
	return false
}

func runC04(c run.Ctx) *core.CaseResult {
	sc := c04Case(c, "C04")
	return runSeq(c, sc, seq.Opts{ProbeAfterGC: true, FinalReopen: true},
		func(res *core.CaseResult) bool { return gcDidWork(res) && res.HasFlag("shared-bucket") })
}

// ------------------------------------------------------------------ C13 (sequential part; concurrent + crash parts are added in c13.go)

func c13SeqCase(c run.Ctx) seqCase {
	r := gen.Rng(c.Seed, propStream("C13"), uint64(c.Index))
	cfg := smallMHConfig(r)
	cfg.Immutable = r.IntN(6) == 0
	u := gen.MakeUniverse(r, cfg.Primary, 4+r.IntN(20))
	p := seq.Profile{N: 60 + r.IntN(120), Keys: len(u.Keys), GC: true, GCLimit: true, FlushBeforeGC: true, FlushEvery: true, Reopen: r.IntN(3) == 0, RemoveHeavy: true, NoHuge: true}
	ops := seq.GenOps(r, p)
	return seqCase{cfg, u, ops}
}
