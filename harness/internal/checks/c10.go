package checks

import (
	"fmt"
	"os"
	"sort"

	"verif/harness/internal/core"
	"verif/harness/internal/crash"
	"verif/harness/internal/gen"
	"verif/harness/internal/hookrt"
	"verif/harness/internal/legacy"
	"verif/harness/internal/model"
	"verif/harness/internal/run"
	"verif/harness/internal/seq"
)

// C10: legacy single-file stores upgrade with identical contents and can resume.

func c10Counts(tier string) (plain, crashes int) {
	if tier == "thorough" {
		return 6000, 240
	}
	return 400, 24
}

func init() {
	run.Register(&run.Check{
		ID:    "C10",
		Level: "exploration",
		Cases: func(tier string) int { a, b := c10Counts(tier); return a + b },
		Run:   runC10,
		Rule: "case = a legacy store written by the harness' own legacy writer (simulated life of 10-150 operations: append-only unversioned primary, version-2 index with stale lists left in the log, minimal or longer-than-needed stored prefixes, superseded records pre-marked deleted / pending in the .free file / leaked, optionally a primary that lost its tail so that index entries dangle) opened with target limits chosen around record sizes (1 byte, record size +-1, 3 records, 1 KiB, default) for index and primary independently, bits 8/12/16 (24 rarely), sometimes with a different bit size (upgrade + re-bucketing). Plain family: contents after OpenStore must equal the generator's map (dangling keys absent), then fsck and a short C01 history. Crash family: the directory is imaged at every hook point inside the upgrading OpenStore (index chunking, primary chunking, freelist application, offset remapping), torn variants included, and every image must reopen successfully with exactly the same contents. " +
			"non-trivial iff the upgrade produced >=2 chunks of the primary or the index AND the store had >=1 pending or pre-deleted record; distinct = hash of the legacy files + target limits",
		Assumptions: []string{
			"the legacy formats are reconstructed from the upgrade code and the checked-in fixtures (DESIGN.md appendix A)",
			"a primary that lost its tail lost it at a record boundary",
		},
		Post: func(cov map[string]any, st map[string]int64, tier string) {
			cov["stores_upgraded"] = st["stores_upgraded"]
			cov["upgrade_images_recovered"] = st["recoveries"]
			cov["max_primary_chunks"] = st["max:primary_chunks"]
		},
	})
}

func pickLimit(r interface{ IntN(int) int }, sizes []int) uint32 {
	rec := 64
	if len(sizes) > 0 {
		rec = sizes[r.IntN(len(sizes))]
	}
	switch r.IntN(7) {
	case 0:
		return 1
	case 1:
		return uint32(rec - 1)
	case 2:
		return uint32(rec)
	case 3:
		return uint32(rec + 1)
	case 4:
		return uint32(3 * rec)
	case 5:
		return 1024
	}
	return gen.DefaultFileSize
}

type c10Case struct {
	cfg gen.Config
	u   gen.Universe
	ls  *legacy.Store
}

func c10Gen(c run.Ctx, crashFam bool) c10Case {
	stream := "C10"
	if crashFam {
		stream = "C10crash"
	}
	r := gen.Rng(c.Seed, propStream(stream), uint64(c.Index))
	bits := []uint8{8, 12, 16}[r.IntN(3)]
	if !crashFam && c.Index%97 == 13 {
		bits = 24
	}
	nk := 3 + r.IntN(30)
	n := 10 + r.IntN(141)
	if crashFam {
		nk = 3 + r.IntN(8)
		n = 8 + r.IntN(30)
		bits = []uint8{8, 12}[r.IntN(2)]
	}
	u := gen.MakeUniverse(r, gen.MH, nk)
	ls := legacy.Generate(r, u, bits, n)
	var idxSizes []int
	idxSizes = append(idxSizes, 30, 50, 80)
	cfg := gen.Config{Primary: gen.MH, Bits: bits, IndexFileSize: pickLimit(r, idxSizes), PrimaryFileSize: pickLimit(r, ls.RecSizes), FileCache: []int{0, 2, 512}[r.IntN(3)]}
	if cfg.IndexFileSize < 1 {
		cfg.IndexFileSize = 1
	}
	if cfg.PrimaryFileSize < 1 {
		cfg.PrimaryFileSize = 1
	}
	// (not combined with dangling entries: neither C09 nor C10 promises that a store whose
	// index names missing primary data can be re-bucketed)
	if !crashFam && r.IntN(8) == 0 && bits != 24 && ls.Dangling == 0 {
		cfg.Bits = []uint8{8, 9, 12, 16, 17}[r.IntN(5)] // upgrade followed by re-bucketing
	}
	return c10Case{cfg, u, ls}
}

func c10Hash(cc c10Case) string {
	return core.HashStrings(cc.cfg.String(), string(cc.ls.Index), string(cc.ls.Primary), string(cc.ls.Free))
}

func wantModel(cc c10Case) *model.Map {
	m := model.New(false)
	for d, v := range cc.ls.Want {
		m.M[d] = v
	}
	return m
}

func runC10(c run.Ctx) *core.CaseResult {
	plain, _ := c10Counts(c.Tier)
	if c.Index >= plain {
		return runC10Crash(c)
	}
	cc := c10Gen(c, false)
	res := &core.CaseResult{ID: c.ID(), Verdict: "held"}
	env, err := core.NewEnv(cc.cfg)
	if err != nil {
		res.Verdict = "inconclusive"
		return res
	}
	defer env.Cleanup()
	if err := cc.ls.Write(env.IndexPath, env.DataPath); err != nil {
		res.Verdict = "inconclusive"
		return res
	}
	rt := hookrt.New()
	rt.Install()
	defer hookrt.Uninstall()
	rn := seq.NewRunner(env, cc.u, rt, res, seq.Opts{FsckAtFlush: true, ProbeAfterGC: true})
	rn.M = wantModel(cc)
	if !rn.Open() {
		res.Sample = c10Sample(c, cc)
		return res
	}
	res.Add("stores_upgraded", 1)
	p := core.Protect(func() {
		rn.Probe("after-upgrade")
		rn.Exec(0, seq.Op{Kind: "iter"})
		rn.Exec(1, seq.Op{Kind: "flush"})
	})
	if p != nil {
		res.Violate("panic", "c10-panic", 0, nil, "probing the upgraded store panicked: %v", p)
	}
	// chunks produced
	l, err := env.Fsck()
	if err == nil {
		res.Add("primary_chunks", int64(len(l.PrimFiles)))
		res.Add("index_chunks", int64(len(l.IdxFiles)))
		if int64(len(l.PrimFiles)) > res.Stats["max:primary_chunks"] {
			res.Stats["max:primary_chunks"] = int64(len(l.PrimFiles))
		}
		if len(l.PrimFiles) >= 2 || len(l.IdxFiles) >= 2 {
			res.Flag("chunked")
		}
	}
	// continue as a normal store
	if res.Verdict != "violated" {
		r := gen.Rng(c.Seed, propStream("C10cont"), uint64(c.Index))
		ops := seq.GenOps(r, seq.Profile{N: 30 + r.IntN(40), Keys: len(cc.u.Keys), GC: true, Reopen: true, RemoveHeavy: true, NoHuge: true, Iter: true})
		for i, o := range ops {
			rn.Exec(2+i, o)
			if res.Verdict == "violated" {
				break
			}
		}
		if res.Verdict != "violated" {
			core.Protect(func() { rn.Probe("final") })
		}
	}
	rn.Finish()
	res.Add("legacy_pending_free", int64(cc.ls.Pending))
	res.Add("legacy_predeleted", int64(cc.ls.PreDeleted))
	res.Add("legacy_leaked", int64(cc.ls.Leaked))
	res.Add("legacy_dangling", int64(cc.ls.Dangling))
	res.Add("legacy_empty_lists", int64(cc.ls.EmptyLists))
	res.Add("legacy_records", int64(cc.ls.Records))
	if cc.ls.Dangling > 0 {
		res.Flag("dangling")
	}
	if cc.cfg.Bits != cc.ls.Bits {
		res.Add("upgrade_plus_rebucket", 1)
	}
	res.Hash = c10Hash(cc)
	res.NonTrivial = res.HasFlag("chunked") && cc.ls.Pending+cc.ls.PreDeleted > 0
	if c.Index < 2 || res.Verdict == "violated" {
		res.Sample = c10Sample(c, cc)
	}
	return res
}

func c10Sample(c run.Ctx, cc c10Case) any {
	return map[string]any{"case": c.ID(), "config": cc.cfg, "legacy_bits": cc.ls.Bits, "legacy_index_bytes": len(cc.ls.Index), "legacy_primary_bytes": len(cc.ls.Primary), "legacy_free_bytes": len(cc.ls.Free),
		"records": cc.ls.Records, "lists": cc.ls.Lists, "pending": cc.ls.Pending, "predeleted": cc.ls.PreDeleted, "leaked": cc.ls.Leaked, "dangling": cc.ls.Dangling, "keys": len(cc.ls.Want), "universe": cc.u.Desc, "record_sizes": firstN(cc.ls.RecSizes, 12)}
}

func firstN(a []int, n int) []int {
	if len(a) > n {
		return a[:n]
	}
	return a
}

func runC10Crash(c run.Ctx) *core.CaseResult {
	return c10CrashExplore(c, c10Gen(c, true))
}

func c10CrashExplore(c run.Ctx, cc c10Case) *core.CaseResult {
	res := &core.CaseResult{ID: c.ID(), Verdict: "held"}
	env, err := core.NewEnv(cc.cfg)
	if err != nil {
		res.Verdict = "inconclusive"
		return res
	}
	defer env.Cleanup()
	if err := cc.ls.Write(env.IndexPath, env.DataPath); err != nil {
		res.Verdict = "inconclusive"
		return res
	}
	rt := hookrt.New()
	rt.Install()
	defer hookrt.Uninstall()
	rc := crash.NewRecorder(env.Root, rt)
	rn := seq.NewRunner(env, cc.u, rt, res, seq.Opts{})
	rn.M = wantModel(cc)
	rc.Enabled = true
	rc.Capture("legacy-store")
	ok := rn.Open()
	rc.Capture("after-call")
	rc.Enabled = false
	if ok {
		core.Protect(func() { rn.Probe("after-upgrade") })
	}
	rn.Finish()
	if res.Verdict == "violated" {
		res.Sample = c10Sample(c, cc)
		return res
	}
	res.Add("stores_upgraded", 1)
	for h, n := range rc.Hooks {
		res.Add("images@"+h, n)
	}
	thorough := c.Tier == "thorough"
	var all []crash.Point
	var multi int64
	for i, pnt := range rc.Points {
		if i > 0 {
			vs := crash.Variants(rc.Points[i-1], pnt, thorough, &multi)
			res.Add("variants", int64(len(vs)))
			all = append(all, vs...)
		}
		all = append(all, pnt)
	}
	res.Add("transitions_changing_several_files", multi)
	for k, v := range crash.MultiHooks {
		res.Add("multi:"+k, v)
		delete(crash.MultiHooks, k)
	}
	limit := 400
	if thorough {
		limit = 3000
	}
	stride := 1
	if len(all) > limit {
		stride = (len(all) + limit - 1) / limit
	}
	seen := map[string]bool{}
	for i := 0; i < len(all); i += stride {
		pnt := all[i]
		h := pnt.Img.Hash()
		if seen[h] {
			continue
		}
		seen[h] = true
		c10Recover(res, cc, pnt)
		if len(res.Violations) >= 10 {
			break
		}
	}
	res.Add("distinct_images_recovered", int64(len(seen)))
	res.Hash = c10Hash(cc)
	res.NonTrivial = len(seen) >= 8
	if c.Index%6 == 0 || res.Verdict == "violated" {
		s := c10Sample(c, cc).(map[string]any)
		s["kind"] = "crash-in-upgrade"
		s["images"] = len(rc.Points)
		s["images_and_variants"] = len(all)
		var hs []string
		for h := range rc.Hooks {
			hs = append(hs, h)
		}
		sort.Strings(hs)
		s["hooks_imaged"] = hs
		res.Sample = s
	}
	return res
}

func c10Recover(res *core.CaseResult, cc c10Case, p crash.Point) {
	dir, err := os.MkdirTemp(core.Scratch(), "vchk-rec10-")
	if err != nil {
		return
	}
	defer os.RemoveAll(dir)
	if err := p.Img.Materialize(dir); err != nil {
		return
	}
	env, _ := core.EnvAt(dir, cc.cfg)
	where := fmt.Sprintf("%s/%s", p.Hook, kindClass(p.Kind))
	witness := map[string]any{"hook": p.Hook, "variant": p.Kind, "files": p.Img.Listing()}
	res.Add("recoveries", 1)
	sub := &core.CaseResult{}
	rt := hookrt.New()
	rt.Install()
	rn := seq.NewRunner(env, cc.u, rt, sub, seq.Opts{FsckAtFlush: true})
	rn.M = wantModel(cc)
	if !rn.Open() {
		for _, v := range sub.Violations {
			res.Violate("crash-upgrade-open", "c10-crash-open-fails@"+where, 0, witness, "an upgrade interrupted at %s (%s) cannot be resumed: %s", p.Hook, p.Kind, v.Msg)
		}
		return
	}
	defer rn.Finish()
	core.Protect(func() {
		rn.Probe("resumed-upgrade")
		rn.Exec(0, seq.Op{Kind: "flush"})
		rn.Exec(1, seq.Op{Kind: "reopen", A: 1, B: 1})
	})
	for i, v := range sub.Violations {
		if i >= 2 {
			break
		}
		kind := v.Kind
		if cc.ls.Dangling > 0 {
			kind += "+dangling" // structural trigger of finding C10-F1
		}
		res.Violate("crash-upgrade", "c10-crash:"+kind+"@"+where, 0, witness, "an upgrade interrupted at %s (%s) and resumed by reopening ends with different contents: %s", p.Hook, p.Kind, v.Msg)
	}
}
