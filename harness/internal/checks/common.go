// Package checks registers one check per property.
package checks

import (
	"context"
	"fmt"
	"hash/fnv"

	"verif/harness/internal/core"
	"verif/harness/internal/gen"
	"verif/harness/internal/hookrt"
	"verif/harness/internal/run"
	"verif/harness/internal/seq"
)

func propStream(p string) uint64 {
	h := fnv.New64a()
	h.Write([]byte(p))
	return h.Sum64()
}

func tierN(tier string, quick, thorough int) int {
	if tier == "thorough" {
		return thorough
	}
	return quick
}

func opsStrings(ops []seq.Op, n int) []string {
	var out []string
	for i, o := range ops {
		if i >= n {
			out = append(out, fmt.Sprintf("... (%d ops)", len(ops)))
			break
		}
		out = append(out, o.String())
	}
	return out
}

func caseHash(cfg gen.Config, u gen.Universe, ops []seq.Op) string {
	parts := []string{cfg.String()}
	for _, k := range u.Keys {
		parts = append(parts, string(k.Digest))
	}
	for _, o := range ops {
		parts = append(parts, fmt.Sprintf("%s/%d/%d/%d/%d/%d", o.Kind, o.K, o.VID, o.VLen, o.A, o.B))
	}
	return core.HashStrings(parts...)
}

func hookStats(res *core.CaseResult, rt *hookrt.RT) {
	for k, v := range rt.Counts() {
		res.Add("hook:"+k, v)
	}
	res.Add("hook_events_total", rt.Total())
}

func sampleOf(c run.Ctx, cfg gen.Config, u gen.Universe, ops []seq.Op) any {
	return sampleOfN(c, cfg, u, ops, 40)
}

func sampleOfN(c run.Ctx, cfg gen.Config, u gen.Universe, ops []seq.Op, n int) any {
	var keys []string
	for i, k := range u.Keys {
		if i >= 6 {
			keys = append(keys, "...")
			break
		}
		keys = append(keys, fmt.Sprintf("%x", k.Digest))
	}
	return map[string]any{"case": c.ID(), "config": cfg, "universe": u.Desc, "keys": keys, "ops": opsStrings(ops, n)}
}

func bgctx() context.Context { return context.Background() }
