package checks

import (
	"bytes"
	"fmt"
	"os"
	"strings"

	"verif/harness/internal/core"
	"verif/harness/internal/gen"
	"verif/harness/internal/run"
)

// Deterministic reproducers of known findings (KNOWN_FINDINGS.json). Each
// returns whether the finding still reproduces on the tree under test.

func init() {
	run.Registry["C03"].Findings = map[string]func() (bool, string){
		"torn-primary-tail-then-gc": reproTornPrimaryTail,
	}
}

func init() {
	run.Registry["C10"].Findings = map[string]func() (bool, string){
		"resume-remap-with-dangling-entry": reproResumeDangling,
	}
}

// reproResumeDangling: crash cases from a fixed stream whose legacy store has
// dangling index entries; the finding reproduces if a resumed upgrade leaves an
// entry pointing at location 0 (fsck problem, contents unaffected).
func reproResumeDangling() (bool, string) {
	tried := 0
	for i := 0; i < 400 && tried < 12; i++ {
		c := run.Ctx{Prop: "C10", Tier: "quick", Seed: 424242, Index: 100000 + i}
		cc := c10Gen(c, true)
		if cc.ls.Dangling == 0 {
			continue
		}
		tried++
		res := c10CrashExplore(c, cc)
		for _, v := range res.Violations {
			if strings.HasPrefix(v.Sig, "c10-crash:fsck+dangling@index.") {
				return true, fmt.Sprintf("legacy store #%d with %d dangling entries: %s", i, cc.ls.Dangling, truncStr(v.Msg, 160))
			}
		}
	}
	return false, fmt.Sprintf("%d legacy stores with dangling entries resumed cleanly", tried)
}

func truncStr(s string, n int) string {
	if len(s) > n {
		return s[:n] + "..."
	}
	return s
}

func mhKey(d []byte) []byte { return gen.EncodeMH(0x12, d) }

// reproTornPrimaryTail: a primary append torn by a crash stays in the file, new
// records are appended behind it, and once the file is non-current primary GC
// parses it sequentially from the torn bytes on.
func reproTornPrimaryTail() (bool, string) {
	cfg := gen.Config{Primary: gen.MH, Bits: 8, IndexFileSize: 1024, PrimaryFileSize: 200, FileCache: 512}
	env, err := core.NewEnv(cfg)
	if err != nil {
		return false, "scratch dir: " + err.Error()
	}
	defer env.Cleanup()
	s, err := env.Open()
	if err != nil {
		return false, "open: " + err.Error()
	}
	val := func(i int) []byte { return bytes.Repeat([]byte{byte(0xc0 + i)}, 30) }
	key := func(i int) []byte { return mhKey([]byte{byte(i), 1, 2, 3, 4, 5, 6, 7}) }
	for i := 0; i < 2; i++ {
		if err := s.Put(key(i), val(i)); err != nil {
			return false, "put: " + err.Error()
		}
	}
	s.Flush()
	s.Close()
	// what a crash inside the next primary flush leaves: a size prefix and part of the record
	f, err := os.OpenFile(env.DataPath+".0", os.O_WRONLY|os.O_APPEND, 0o644)
	if err != nil {
		return false, "primary file: " + err.Error()
	}
	f.Write([]byte{40, 0, 0, 0, 0x12, 8, 9, 9, 9})
	f.Close()
	os.Remove(env.IndexPath + ".buckets") // a crashed store has no bucket snapshot
	s, err = env.Open()
	if err != nil {
		return false, "reopen: " + err.Error()
	}
	defer s.Close()
	for i := 2; i < 12; i++ {
		if err := s.Put(key(i), val(i)); err != nil {
			return false, "put: " + err.Error()
		}
		s.Flush()
	}
	// overwrite one early key so that the file becomes low-use and GC has something to do
	s.Put(key(0), val(20))
	s.Flush()
	mp := core.MH(s)
	lost := ""
	p := core.Protect(func() {
		for c := 0; c < 3; c++ {
			mp.GC(bgctx(), 1)
			s.Flush()
		}
		for i := 1; i < 12; i++ {
			v, found, err := s.Get(key(i))
			if err != nil || !found || !bytes.Equal(v, val(i)) {
				lost = fmt.Sprintf("key %d reads found=%v err=%v after GC parsed the file with the torn record", i, found, err)
				return
			}
		}
	})
	if p != nil {
		return true, fmt.Sprintf("GC panicked on the torn file: %v", p)
	}
	if lost != "" {
		return true, lost
	}
	return false, "all keys intact after GC"
}

func init() {
	run.Registry["C01"].Findings = map[string]func() (bool, string){
		"keys-of-one-bucket-sharing-255-bytes": reproSharedPrefix255,
	}
	run.Registry["C08"].Findings = map[string]func() (bool, string){
		"keys-of-one-bucket-sharing-255-bytes": reproSharedPrefix255,
	}
}

// reproSharedPrefix255: three legal keys (identity multihashes with 257-byte digests) of one bucket
// that differ only in their last byte. The distinguishing prefix the index has to store is 256
// bytes long, its length is stored in one byte.
func reproSharedPrefix255() (bool, string) {
	cfg := gen.Config{Primary: gen.MH, Bits: 8, IndexFileSize: 4096, PrimaryFileSize: 65536, FileCache: 512}
	env, err := core.NewEnv(cfg)
	if err != nil {
		return false, "scratch dir: " + err.Error()
	}
	defer env.Cleanup()
	s, err := env.Open()
	if err != nil {
		return false, "open: " + err.Error()
	}
	defer func() { core.Protect(func() { s.Close() }) }()
	mk := func(last byte) []byte {
		d := bytes.Repeat([]byte{0xab}, 257)
		d[256] = last
		return gen.EncodeMH(0x00, d)
	}
	bad := ""
	p := core.Protect(func() {
		keys := [][]byte{mk(1), mk(2), mk(3)}
		for i, k := range keys {
			if err := s.Put(k, []byte{byte(i), 7}); err != nil {
				bad = fmt.Sprintf("Put of key %d failed: %v", i, err)
				return
			}
		}
		s.Flush()
		for i, k := range keys {
			v, ok, err := s.Get(k)
			if err != nil || !ok || !bytes.Equal(v, []byte{byte(i), 7}) {
				bad = fmt.Sprintf("key %d reads (%x, found=%v, err=%v) after three keys sharing 256 digest bytes were stored", i, v, ok, err)
				return
			}
		}
	})
	if p != nil {
		return true, truncStr(fmt.Sprintf("storing the second/third of three keys sharing 256 digest bytes panicked: %v", p), 200)
	}
	if bad != "" {
		return true, bad
	}
	return false, "three keys sharing 256 digest bytes were stored and read back"
}
