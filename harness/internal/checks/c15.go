package checks

import (
	"bytes"
	"context"
	"errors"
	"fmt"
	"math/rand/v2"
	"time"

	blocks "github.com/ipfs/go-block-format"
	"github.com/ipfs/go-cid"
	ipld "github.com/ipfs/go-ipld-format"
	storethehash "github.com/ipld/go-storethehash"
	"github.com/ipld/go-storethehash/store"
	"github.com/multiformats/go-multihash"

	"verif/harness/internal/core"
	"verif/harness/internal/gen"
	"verif/harness/internal/hookrt"
	"verif/harness/internal/run"
)

func init() {
	run.Register(&run.Check{
		ID:    "C15",
		Level: "exploration",
		Cases: func(tier string) int { return tierN(tier, 4000, 80000) },
		Run:   runC15,
		Rule: "case = sequential history of 60-140 blockstore calls (Put, PutMany, Get, Has, GetSize, DeleteBlock, HashOnRead toggles) over 8-30 blocks of sizes {0,1,31,32,100,4096,~70KiB} hashed with sha2-256, sha2-512 (a third of them truncated to 16/20/28 bytes), blake2b-256 or identity, addressed through CIDv0/v1 x raw/dag-pb/dag-cbor aliases, plus deliberately mismatching (CID, bytes) pairs; every method is also called with a cancelled context; IndexBitSize(8) so real hashes share buckets; in a third of the cases the primary file-size limit equals the exact total size of the first 2-4 records, which are stored first; compared call by call with a reference map keyed by multihash and the expected error classes. Serviced variant (case index mod 3 == 2): the periodic flusher runs at 1 ms and the history contains settle steps (wait, by hook counters, until a flush that began after the step has completed), after each of which every block is read again, and restarts (Close + OpenHashedBlockstore); in half of these the background collectors run at 2 ms on 2 KiB primary files and the history ends with a mass delete (80 fresh blocks, all deleted but two adjacent ones in every run of 26), several collector cycles, a restart, 70 more blocks (the primary rolls over several times), another restart, and a complete re-read with hash-on-read enabled; " +
			"non-trivial iff the run exercised a cancelled-context call, an alias lookup, a wrong-hash probe with the flag on and with it off, a delete and an empty block; distinct = hash of the call list",
		Assumptions: []string{
			"multihash digests >= 4 bytes (identity-hashed blocks have >= 4 bytes) and no digest is a proper prefix of another (the precondition C01 puts on keys holds for the adapter's keys: identity-hashed blocks are not prefixes of each other, only blocks with unique bytes get truncated digests)",
			"first write wins for a multihash (the adapter opens the store immutable and suppresses key-exists)",
		},
	})
}

type c15Block struct {
	data    []byte
	mh      multihash.Multihash
	aliases []cid.Cid
	honest  bool // bytes hash to the multihash
}

var c15Sizes = []int{0, 1, 31, 32, 100, 4096, 70000}
var c15Hashes = []uint64{multihash.SHA2_256, multihash.SHA2_512, multihash.BLAKE2B_MIN + 31, multihash.IDENTITY}
var c15Codecs = []uint64{cid.Raw, cid.DagProtobuf, cid.DagCBOR}

func c15MakeBlock(r *rand.Rand, size int, tag uint64) c15Block {
	data := make([]byte, size)
	for i := range data {
		data[i] = byte(r.IntN(256))
	}
	if size >= 8 {
		copy(data, gen.Value(tag, 8))
	}
	code := c15Hashes[r.IntN(len(c15Hashes))]
	if code == multihash.IDENTITY && (size < 4 || size > 100) {
		code = multihash.SHA2_256
	}
	length := -1
	if (code == multihash.SHA2_256 || code == multihash.SHA2_512) && size >= 8 && r.IntN(3) == 0 {
		// (only blocks whose bytes are unique: two truncations of one hash would be prefixes of each other,
		// which the properties' precondition excludes)
		length = []int{20, 16, 28}[r.IntN(3)] // truncated digests are legal multihashes
	}
	mh, err := multihash.Sum(data, code, length)
	if err != nil {
		mh, _ = multihash.Sum(data, multihash.SHA2_256, -1)
		code = multihash.SHA2_256
		length = -1
	}
	b := c15Block{data: data, mh: mh, honest: true}
	for _, cc := range c15Codecs {
		b.aliases = append(b.aliases, cid.NewCidV1(cc, mh))
	}
	if code == multihash.SHA2_256 && length == -1 {
		b.aliases = append(b.aliases, cid.NewCidV0(mh))
	}
	r.Shuffle(len(b.aliases), func(i, j int) { b.aliases[i], b.aliases[j] = b.aliases[j], b.aliases[i] })
	return b
}

func runC15(c run.Ctx) *core.CaseResult {
	res := &core.CaseResult{ID: c.ID(), Verdict: "held"}
	r := gen.Rng(c.Seed, propStream("C15"), uint64(c.Index))
	cfg := gen.Config{Primary: gen.MH, Immutable: true, Bits: 8, IndexFileSize: []uint32{100, 1024, gen.DefaultFileSize}[r.IntN(3)], PrimaryFileSize: []uint32{300, 4096, gen.DefaultFileSize}[r.IntN(3)], FileCache: []int{0, 2, 512}[r.IntN(3)]}
	env, err := core.NewEnv(cfg)
	if err != nil {
		res.Verdict = "inconclusive"
		return res
	}
	defer env.Cleanup()
	rt := hookrt.New()
	rt.Install()
	defer hookrt.Uninstall()

	// blocks
	nb := 8 + r.IntN(23)
	var blks []c15Block
	blks = append(blks, c15MakeBlock(r, 0, 0)) // the empty block
	// a bucket partner for the empty block: same first digest byte
	empty := blks[0]
	ed, _ := multihash.Decode(empty.mh)
	for t := uint64(0); t < 100000; t++ {
		b := c15MakeBlock(r, 32, 1000000+t)
		d, _ := multihash.Decode(b.mh)
		if d.Digest[0] == ed.Digest[0] && d.Code != multihash.IDENTITY {
			blks = append(blks, b)
			res.Flag("empty-block-bucket-partner")
			break
		}
	}
	for len(blks) < nb {
		blks = append(blks, c15MakeBlock(r, c15Sizes[r.IntN(len(c15Sizes))], uint64(len(blks))))
	}
	// mismatching (CID, bytes) pairs: CID of one honest block, other bytes
	nm := 1 + r.IntN(3)
	for i := 0; i < nm; i++ {
		src := c15MakeBlock(r, 40+r.IntN(60), uint64(5000+i))
		for src.mh[0] == 0x00 { // not identity: hash-on-read with identity re-derives the digest from the bytes anyway
			src = c15MakeBlock(r, 40+r.IntN(60), uint64(6000+i))
		}
		bad := src
		bad.data = append([]byte("not what the cid says "), src.data...)
		bad.honest = false
		blks = append(blks, bad)
	}

	// exact-fit prologue (a third of the cases): the primary file size limit is the exact sum of the
	// first k records, which are stored first and in order, so a file is filled to the byte
	prologue := 0
	if r.IntN(3) == 0 {
		k := 2 + r.IntN(3)
		sum := 0
		for i := 1; i <= k && i < len(blks); i++ {
			sum += 4 + len(blks[i].mh) + len(blks[i].data)
		}
		if sum > 0 && sum < 60000 {
			env.Cfg.PrimaryFileSize = uint32(sum)
			cfg.PrimaryFileSize = uint32(sum)
			prologue = k
			res.Flag("exact-fit-prologue")
		}
	}
	// serviced variant (a third of the cases): the periodic flusher runs at 1 ms, the history contains
	// 'settle' steps (wait, by hook counters, for a flush that began after the step) and restarts; half of
	// those also run the background collectors at 2 ms on 2 KiB primary files and end with a mass delete
	serviced := c.Index%3 == 2
	withGC := c.Index%6 == 5
	if withGC && prologue == 0 {
		env.Cfg.PrimaryFileSize = 2048
		cfg.PrimaryFileSize = 2048
	}
	var opts []store.Option
	opts = append(opts, env.Options()...)
	if serviced {
		opts = append(opts, store.SyncInterval(time.Millisecond))
		res.Flag("serviced")
	}
	if withGC {
		opts = append(opts, store.GCInterval(2*time.Millisecond))
		res.Flag("collectors-running")
	}
	bs, err := storethehash.OpenHashedBlockstore(context.Background(), env.IndexPath, env.DataPath, opts...)
	if err != nil {
		res.Violate("open-error", "c15-open-error", 0, nil, "OpenHashedBlockstore failed: %v", err)
		return res
	}
	started := r.IntN(2) == 0 || serviced
	if started {
		bs.Start()
	}
	defer func() { bs.Close() }()
	// settle: a flush that began after this point has completed (the flusher's flushes are sequential)
	settle := func() bool {
		e0 := rt.Count("store.flush.entry")
		for i := 0; i < 6000; i++ {
			if rt.Count("store.flush.no-work")+rt.Count("store.flush.notice-closed") >= e0+1 {
				res.Add("settles", 1)
				return true
			}
			time.Sleep(500 * time.Microsecond)
		}
		res.Add("settle_timeouts", 1)
		return false
	}
	gcCycles := func(n int64) bool {
		c0 := rt.Count("mh.gc.cycle.start")
		for i := 0; i < 6000; i++ {
			if rt.Count("mh.gc.cycle.start") >= c0+n+1 {
				return true
			}
			time.Sleep(500 * time.Microsecond)
		}
		res.Add("gc_wait_timeouts", 1)
		return false
	}

	live := context.Background()
	dead, cancel := context.WithCancel(context.Background())
	cancel()
	model := map[string]*c15Block{} // multihash -> stored block
	hashOnRead := false
	n := 60 + r.IntN(81)
	var calls []string
	step := 0
	viol := func(kind string, f string, a ...any) {
		res.Violate(kind, "c15-"+kind, step, nil, f, a...)
	}
	checkGet := func(b *c15Block, c0 cid.Cid) {
		want, ok := model[string(b.mh)]
		got, err := bs.Get(live, c0)
		res.Add("call_get_live", 1)
		if !ok {
			if !ipld.IsNotFound(err) {
				viol("get-notfound", "Get(%s) of an absent block returned (%v, %v), want IPLD not-found", c0, got, err)
			}
			return
		}
		if hashOnRead && !want.honest {
			res.Flag("wronghash-flag-on")
			if !errors.Is(err, blocks.ErrWrongHash) {
				viol("hash-on-read", "hash-on-read enabled: Get(%s) of bytes that do not hash to the CID returned err=%v, want ErrWrongHash", c0, err)
			}
			return
		}
		if !want.honest {
			res.Flag("wronghash-flag-off")
		}
		if err != nil {
			viol("get-error", "Get(%s) failed: %v (hashOnRead=%v honest=%v)", c0, err, hashOnRead, want.honest)
			return
		}
		if !bytes.Equal(got.RawData(), want.data) {
			viol("get-bytes", "Get(%s) returned %d bytes, stored %d bytes", c0, len(got.RawData()), len(want.data))
		}
		if !got.Cid().Equals(c0) {
			viol("get-cid", "Get(%s) returned block with cid %s", c0, got.Cid())
		}
	}
	checkHasSize := func(b *c15Block, c0 cid.Cid) {
		want, ok := model[string(b.mh)]
		has, err := bs.Has(live, c0)
		res.Add("call_has_live", 1)
		if err != nil || has != ok {
			viol("has", "Has(%s) = %v, %v; model says %v", c0, has, err, ok)
		}
		sz, err := bs.GetSize(live, c0)
		res.Add("call_getsize_live", 1)
		if ok {
			if err != nil || sz != len(want.data) {
				viol("getsize", "GetSize(%s) = %d, %v; stored block has %d bytes", c0, sz, err, len(want.data))
			}
		} else if !ipld.IsNotFound(err) {
			viol("getsize-notfound", "GetSize(%s) of an absent block returned (%d, %v), want IPLD not-found", c0, sz, err)
		}
	}
	p := core.Protect(func() {
		for i := 1; i <= prologue && i < len(blks); i++ {
			blk, _ := blocks.NewBlockWithCid(blks[i].data, blks[i].aliases[0])
			if err := bs.Put(live, blk); err != nil {
				viol("put-error", "Put(%s) failed: %v", blks[i].aliases[0], err)
			}
			if _, ok := model[string(blks[i].mh)]; !ok {
				model[string(blks[i].mh)] = &blks[i]
			}
			calls = append(calls, fmt.Sprintf("put(%s,%d) [prologue]", blks[i].aliases[0], len(blks[i].data)))
		}
		for step = 0; step < n; step++ {
			b := &blks[r.IntN(len(blks))]
			a := b.aliases[r.IntN(len(b.aliases))]
			if a != b.aliases[0] {
				res.Flag("alias")
			}
			useDead := r.IntN(6) == 0
			x := r.IntN(100)
			if serviced && step%9 == 4 {
				// (PRNG stream untouched: the step number decides)
				if step%27 == 13 {
					calls = append(calls, "restart")
					bs.Close()
					nbs, err := storethehash.OpenHashedBlockstore(context.Background(), env.IndexPath, env.DataPath, opts...)
					if err != nil {
						viol("reopen-error", "OpenHashedBlockstore after Close failed: %v", err)
						return
					}
					bs = nbs
					bs.Start()
					hashOnRead = false // a new adapter starts with the check off
					res.Add("restarts", 1)
					res.Flag("restarted")
				} else {
					calls = append(calls, "settle")
					settle()
				}
				// everything must read the same afterwards
				for i := range blks {
					checkGet(&blks[i], blks[i].aliases[0])
					checkHasSize(&blks[i], blks[i].aliases[0])
				}
			}
			switch {
			case x < 25: // Put
				blk, _ := blocks.NewBlockWithCid(b.data, a)
				calls = append(calls, fmt.Sprintf("put(%s,%d,dead=%v)", a, len(b.data), useDead))
				if useDead {
					res.Flag("cancelled-ctx")
					res.Add("call_put_cancelled", 1)
					if err := bs.Put(dead, blk); err == nil {
						viol("ctx", "Put with a cancelled context returned nil")
					}
					checkGet(b, a) // no side effect
					continue
				}
				res.Add("call_put_live", 1)
				if err := bs.Put(live, blk); err != nil {
					viol("put-error", "Put(%s) failed: %v", a, err)
				}
				if _, ok := model[string(b.mh)]; !ok {
					model[string(b.mh)] = b
				} else {
					res.Add("duplicate_puts", 1)
				}
				if len(b.data) == 0 {
					res.Flag("empty-block")
				}
			case x < 35: // PutMany
				var many []blocks.Block
				var sel []*c15Block
				for i := 0; i < 1+r.IntN(5); i++ {
					bb := &blks[r.IntN(len(blks))]
					blk, _ := blocks.NewBlockWithCid(bb.data, bb.aliases[r.IntN(len(bb.aliases))])
					many = append(many, blk)
					sel = append(sel, bb)
				}
				calls = append(calls, fmt.Sprintf("putmany(%d,dead=%v)", len(many), useDead))
				if useDead {
					res.Flag("cancelled-ctx")
					res.Add("call_putmany_cancelled", 1)
					if err := bs.PutMany(dead, many); err == nil {
						viol("ctx", "PutMany with a cancelled context returned nil")
					}
					for _, bb := range sel {
						checkGet(bb, bb.aliases[0])
					}
					continue
				}
				res.Add("call_putmany_live", 1)
				if err := bs.PutMany(live, many); err != nil {
					viol("putmany-error", "PutMany failed: %v", err)
				}
				for _, bb := range sel {
					if _, ok := model[string(bb.mh)]; !ok {
						model[string(bb.mh)] = bb
					} else {
						res.Add("duplicate_puts", 1)
					}
				}
				for _, bb := range sel {
					checkGet(bb, bb.aliases[r.IntN(len(bb.aliases))])
				}
			case x < 60: // Get
				calls = append(calls, fmt.Sprintf("get(%s,dead=%v)", a, useDead))
				if useDead {
					res.Flag("cancelled-ctx")
					res.Add("call_get_cancelled", 1)
					if _, err := bs.Get(dead, a); err == nil || ipld.IsNotFound(err) {
						viol("ctx", "Get with a cancelled context returned %v", err)
					}
					continue
				}
				checkGet(b, a)
			case x < 75: // Has + GetSize
				calls = append(calls, fmt.Sprintf("has+size(%s,dead=%v)", a, useDead))
				if useDead {
					res.Flag("cancelled-ctx")
					res.Add("call_has_cancelled", 1)
					if _, err := bs.Has(dead, a); err == nil {
						viol("ctx", "Has with a cancelled context returned nil error")
					}
					if _, err := bs.GetSize(dead, a); err == nil || ipld.IsNotFound(err) {
						viol("ctx", "GetSize with a cancelled context returned %v", err)
					}
					continue
				}
				checkHasSize(b, a)
			case x < 88: // DeleteBlock
				calls = append(calls, fmt.Sprintf("delete(%s,dead=%v)", a, useDead))
				if useDead {
					res.Flag("cancelled-ctx")
					res.Add("call_delete_cancelled", 1)
					if err := bs.DeleteBlock(dead, a); err == nil {
						viol("ctx", "DeleteBlock with a cancelled context returned nil")
					}
					checkHasSize(b, a)
					continue
				}
				res.Add("call_delete_live", 1)
				if _, ok := model[string(b.mh)]; ok {
					res.Flag("delete-present")
				}
				if err := bs.DeleteBlock(live, a); err != nil {
					viol("delete-error", "DeleteBlock(%s) failed: %v", a, err)
				}
				delete(model, string(b.mh))
				checkGet(b, b.aliases[r.IntN(len(b.aliases))])
				checkHasSize(b, a)
			case x < 94: // toggle
				hashOnRead = r.IntN(2) == 0
				bs.HashOnRead(hashOnRead)
				calls = append(calls, fmt.Sprintf("hashonread(%v)", hashOnRead))
				res.Add("hashonread_toggles", 1)
				// probe a dishonest block right away when one is stored
				for i := range blks {
					if !blks[i].honest {
						if _, ok := model[string(blks[i].mh)]; ok {
							checkGet(&blks[i], blks[i].aliases[0])
						}
					}
				}
			default: // unknown CID
				u := c15MakeBlock(r, 33, uint64(900000+step))
				calls = append(calls, "unknown-cid")
				checkGet(&u, u.aliases[0])
				checkHasSize(&u, u.aliases[0])
				res.Add("unknown_cid_probes", 1)
			}
		}
		if withGC {
			// mass delete: 80 fresh 40-byte blocks, all deleted but two adjacent ones in every run of 26, so that
			// every primary file they fill is > 85% free with two live records: the collector drains such files
			base := len(blks)
			for i := 0; i < 80; i++ {
				b := c15MakeBlock(r, 40, uint64(700000+i))
				blks = append(blks, b)
			}
			for i := base; i < len(blks); i++ {
				blk, _ := blocks.NewBlockWithCid(blks[i].data, blks[i].aliases[0])
				if err := bs.Put(live, blk); err != nil {
					viol("put-error", "Put(%s) failed: %v", blks[i].aliases[0], err)
				}
				if _, ok := model[string(blks[i].mh)]; !ok {
					model[string(blks[i].mh)] = &blks[i]
				}
			}
			calls = append(calls, "mass-put(80)")
			settle()
			for i := base; i < len(blks); i++ {
				if (i-base)%26 > 1 {
					if err := bs.DeleteBlock(live, blks[i].aliases[0]); err != nil {
						viol("delete-error", "DeleteBlock(%s) failed: %v", blks[i].aliases[0], err)
					}
					delete(model, string(blks[i].mh))
				}
			}
			calls = append(calls, "mass-delete(74)")
			r0 := rt.Count("mh.gc.relocate.after-put")
			for i := 0; i < 4; i++ {
				settle()
				gcCycles(2)
			}
			settle()
			res.Add("records_relocated_by_background_gc", rt.Count("mh.gc.relocate.after-put")-r0)
			if rt.Count("mh.gc.relocate.after-put") > r0 {
				res.Flag("gc-relocated")
			}
			// restart after the collector reshaped the files, then keep writing until the primary has rolled
			// over at least twice more (file numbering, current file and header must have stayed consistent)
			bs.Close()
			nbs, err := storethehash.OpenHashedBlockstore(context.Background(), env.IndexPath, env.DataPath, opts...)
			if err != nil {
				viol("reopen-error", "OpenHashedBlockstore after the collector ran failed: %v", err)
				return
			}
			bs = nbs
			bs.Start()
			calls = append(calls, "restart", "mass-put(70)")
			base2 := len(blks)
			for i := 0; i < 70; i++ {
				blks = append(blks, c15MakeBlock(r, 100, uint64(800000+i)))
			}
			for i := base2; i < len(blks); i++ {
				blk, _ := blocks.NewBlockWithCid(blks[i].data, blks[i].aliases[0])
				if err := bs.Put(live, blk); err != nil {
					viol("put-error", "Put(%s) after the restart failed: %v", blks[i].aliases[0], err)
					break
				}
				if _, ok := model[string(blks[i].mh)]; !ok {
					model[string(blks[i].mh)] = &blks[i]
				}
				if i%16 == 15 {
					settle()
				}
			}
			settle()
			bs.Close()
			nbs, err = storethehash.OpenHashedBlockstore(context.Background(), env.IndexPath, env.DataPath, opts...)
			if err != nil {
				viol("reopen-error", "second OpenHashedBlockstore after the collector ran failed: %v", err)
				return
			}
			bs = nbs
			bs.Start()
			calls = append(calls, "restart")
			res.Add("restarts", 2)
			hashOnRead = true
			bs.HashOnRead(true)
			calls = append(calls, "hashonread(true)")
		}
		// final: every block through every alias
		for i := range blks {
			for _, a := range blks[i].aliases {
				checkGet(&blks[i], a)
				checkHasSize(&blks[i], a)
			}
		}
	})
	if p != nil {
		res.Violate("panic", "c15-panic", step, nil, "blockstore call panicked: %v", p)
	}
	res.Hash = core.HashStrings(calls...)
	res.NonTrivial = res.HasFlag("cancelled-ctx") && res.HasFlag("alias") && res.HasFlag("wronghash-flag-on") && res.HasFlag("wronghash-flag-off") && res.HasFlag("delete-present") && res.HasFlag("empty-block")
	if c.Index < 2 || res.Verdict == "violated" {
		m := 40
		if res.Verdict == "violated" {
			m = len(calls)
		}
		if len(calls) < m {
			m = len(calls)
		}
		res.Sample = map[string]any{"case": c.ID(), "config": cfg, "blocks": len(blks), "started": started, "calls": calls[:m]}
	}
	res.Add("calls_total", int64(len(calls)))
	return res
}
