package checks

import (
	"fmt"
	"os"
	"path/filepath"
	"sync"
	"syscall"
	"time"

	"github.com/ipld/go-storethehash/store/filecache"

	"verif/harness/internal/core"
	"verif/harness/internal/gen"
	"verif/harness/internal/run"
)

// c14SlowOpen: an Open that is slow inside the operating system (a FIFO opened for reading
// blocks in open(2) until somebody opens the write end) overlapped with one of the operations
// that restructure the cache. Whatever the order in which the two take effect, at quiescence the
// accounting identities of C14 must hold: no cached handle beyond the capacity, every released
// and uncached handle closed, every lent handle usable.
func c14SlowOpen(c run.Ctx, res *core.CaseResult, j int) {
	r := gen.Rng(c.Seed, propStream("C14slow"), uint64(j))
	dir, err := os.MkdirTemp(core.Scratch(), "vchk-fcslow-")
	if err != nil {
		res.Verdict = "inconclusive"
		return
	}
	defer os.RemoveAll(dir)
	fifo := filepath.Join(dir, "slow")
	if err := syscall.Mkfifo(fifo, 0o644); err != nil {
		res.Verdict = "inconclusive"
		res.Note = "mkfifo: " + err.Error()
		return
	}
	plain := filepath.Join(dir, "plain")
	os.WriteFile(plain, []byte{1, 2, 3, 4}, 0o644)
	cap0 := 1 + r.IntN(3)
	fc := filecache.New(cap0)
	// something cached already in half of the cases
	var pre *os.File
	if r.IntN(2) == 0 {
		pre, _ = fc.Open(plain)
		if r.IntN(2) == 0 {
			fc.Close(pre)
			pre = nil
		}
	}
	other := []string{"SetCacheSize(0)", "SetCacheSize(1)", "Clear()", "Remove(slow)", "SetCacheSize(0);SetCacheSize(2)"}[j%5]
	var slow *os.File
	var oerr error
	var wg sync.WaitGroup
	wg.Add(1)
	go func() {
		defer wg.Done()
		slow, oerr = fc.Open(fifo)
	}()
	time.Sleep(time.Duration(5+r.IntN(20)) * time.Millisecond) // let the Open reach open(2); only attainment depends on it
	wg.Add(1)
	go func() {
		defer wg.Done()
		switch other {
		case "SetCacheSize(0)":
			fc.SetCacheSize(0)
		case "SetCacheSize(1)":
			fc.SetCacheSize(1)
		case "Clear()":
			fc.Clear()
		case "Remove(slow)":
			fc.Remove(fifo)
		default:
			fc.SetCacheSize(0)
			fc.SetCacheSize(2)
		}
	}()
	time.Sleep(time.Duration(5+r.IntN(20)) * time.Millisecond)
	// complete the slow open
	w, werr := os.OpenFile(fifo, os.O_WRONLY, 0)
	wg.Wait()
	if werr == nil {
		defer w.Close()
	}
	seqs := fmt.Sprintf("capacity %d, Open(fifo) overlapped with %s", cap0, other)
	if oerr != nil || slow == nil {
		res.Violate("open-error", "c14-slow-open-error", 0, seqs, "%s: Open failed: %v", seqs, oerr)
		return
	}
	// the lent handle must be usable
	if _, err := slow.Stat(); err != nil {
		res.Violate("lent-handle-closed", "c14-lent-handle-closed", 0, seqs, "%s: the handle returned by the slow Open is not usable while lent: %v", seqs, err)
	}
	if err := fc.Close(slow); err != nil {
		res.Violate("close-error", "c14-close-error", 0, seqs, "%s: Close of the lent handle failed: %v", seqs, err)
	}
	if pre != nil {
		fc.Close(pre)
	}
	// quiescent accounting: nothing is lent any more
	capN, lenN := fc.Cap(), fc.Len()
	if lenN > capN {
		res.Violate("over-capacity", "c14-over-capacity", 0, seqs, "%s: at quiescence the cache holds %d files with capacity %d", seqs, lenN, capN)
	}
	open := 0
	for _, t := range fdsUnder(dir) {
		if t == fifo || t == plain {
			open++
		}
	}
	if w != nil && werr == nil {
		open-- // the harness' own write end
	}
	if open > capN || open != lenN {
		res.Violate("descriptor-accounting", "c14-descriptors", 0, seqs, "%s: at quiescence %d descriptors of cached files are open, the cache reports Len %d, Cap %d (a released handle that is not cached must be closed)", seqs, open, lenN, capN)
	}
	fc.Clear()
	res.Add("slow_open_overlaps", 1)
	res.Add("slow_open_vs_"+other, 1)
	res.Hash = core.HashStrings("slowopen", seqs, fmt.Sprint(j))
	res.NonTrivial = true
	if j < 5 {
		res.Sample = map[string]any{"case": c.ID(), "kind": "slow-open-overlap", "scenario": seqs}
	}
}
