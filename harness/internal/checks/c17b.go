package checks

import (
	"fmt"
	"os"
	"strings"
	"time"

	"github.com/ipld/go-storethehash/store"

	"verif/harness/internal/core"
	"verif/harness/internal/gen"
	"verif/harness/internal/hookrt"
	"verif/harness/internal/run"
	"verif/harness/internal/seq"
)

var c17CloseFailKinds = []string{"next-primary-file-exists", "next-index-file-is-a-directory", "next-primary-file-exists+flusher-hits-it-first", "both"}

func c17Extra(tier string) (gated, closeFail int) {
	if tier == "thorough" {
		return 320, len(c17CloseFailKinds) * 40
	}
	return 32, len(c17CloseFailKinds) * 4
}

// c17CloseFails: Close has to write, and the write cannot succeed (the file the primary or the
// index must roll over to cannot be created). Whatever Close returns, once it has returned the
// collectors and the flusher have stopped, no descriptor is open and the directory is left alone.
func c17CloseFails(c run.Ctx, res *core.CaseResult, kind string) {
	r := gen.Rng(c.Seed, propStream("C17closefail"), uint64(c.Index))
	cfg := c17Config(r)
	cfg.IndexFileSize, cfg.PrimaryFileSize = []uint32{100, 300}[r.IntN(2)], []uint32{100, 300}[r.IntN(2)]
	env, err := core.NewEnv(cfg)
	if err != nil {
		res.Verdict = "inconclusive"
		return
	}
	defer env.Cleanup()
	rt := hookrt.New()
	rt.LogEvents = true
	rt.MaxEvents = 50000
	rt.Install()
	defer hookrt.Uninstall()
	gcInt := time.Duration(1+r.IntN(4)) * time.Millisecond
	sync := time.Hour
	started := strings.Contains(kind, "flusher")
	if started {
		sync = time.Millisecond
	}
	u := gen.MakeUniverse(r, cfg.Primary, 4+r.IntN(8))
	rn := seq.NewRunner(env, u, rt, res, seq.Opts{Extra: []store.Option{store.GCInterval(gcInt), store.SyncInterval(sync)}})
	if !rn.Open() {
		return
	}
	if started {
		rn.S.Start()
	}
	ops := seq.GenOps(r, seq.Profile{N: 30 + r.IntN(40), Keys: len(u.Keys), RemoveHeavy: true, NoHuge: true})
	for i, o := range ops {
		rn.Exec(i, o)
		if res.Verdict == "violated" {
			rn.Finish()
			return
		}
	}
	rn.Exec(len(ops), seq.Op{Kind: "flush"})
	time.Sleep(2 * gcInt)
	// the fault
	mp := core.MH(rn.S)
	var planted []string
	if mp != nil && (strings.HasPrefix(kind, "next-primary") || kind == "both") {
		for d := uint32(1); d <= 2; d++ {
			p := fmt.Sprintf("%s.%d", env.DataPath, mp.VerifFileNum()+d)
			if os.WriteFile(p, []byte("x"), 0o644) == nil {
				planted = append(planted, p)
			}
		}
	}
	if strings.HasPrefix(kind, "next-index") || kind == "both" {
		for d := uint32(1); d <= 2; d++ {
			p := fmt.Sprintf("%s.%d", env.IndexPath, rn.S.Index().VerifFileNum()+d)
			if os.Mkdir(p, 0o755) == nil {
				planted = append(planted, p)
			}
		}
	}
	// unflushed work that needs the next files (not mirrored in the model: the store is being broken on purpose)
	putErrs := 0
	for i := 0; i < 14; i++ {
		k := u.Keys[i%len(u.Keys)]
		if err := rn.S.Put(append([]byte{}, k.Raw...), gen.Value(uint64(880000+i), 50+i)); err != nil {
			putErrs++
		}
		if started && i%4 == 3 {
			time.Sleep(2 * time.Millisecond)
		}
	}
	what := "close-with-failing-write:" + kind
	var cerr error
	p := core.Protect(func() { cerr = rn.S.Close() })
	if p != nil {
		res.Violate("panic", "c17-close-panic:"+kind, 0, nil, "%s: Close panicked: %v", what, p)
	}
	if cerr != nil {
		res.Flag("close-returned-error")
		res.Add("closes_that_returned_an_error", 1)
	} else {
		res.Add("close_fault_not_effective", 1)
	}
	afterClose(res, env, rt, what, 20*gcInt+10*time.Millisecond)
	// a second Close is a no-op and must not disturb anything either
	p = core.Protect(func() { rn.S.Close() })
	if p != nil {
		res.Violate("panic", "c17-close-panic:"+kind, 0, nil, "%s: second Close panicked: %v", what, p)
	}
	afterClose(res, env, rt, what+"/second-close", 2*time.Millisecond)
	rn.S = nil
	rn.Finish()
	res.Add("closes_checked", 1)
	res.Add("puts_refused_after_background_flush_failed", int64(putErrs))
	res.Hash = core.HashStrings(what, caseHash(cfg, u, ops), fmt.Sprint(cerr != nil))
	res.NonTrivial = cerr != nil
	if c.Index%5 == 0 || res.Verdict == "violated" {
		res.Sample = map[string]any{"case": c.ID(), "family": "close-with-failing-write", "kind": kind, "config": cfg, "planted": planted, "close_error": fmt.Sprint(cerr), "ops": opsStrings(ops, 20)}
	}
}

// c17Gated runs one of the scripted descriptor scenarios (G22, G23).
func c17Gated(c run.Ctx, res *core.CaseResult, j int) {
	c2 := c
	c2.Index = j * 8
	runGated(c2, res, "C17")
	res.ID = c.ID()
	res.Add("c17_gated_cases", 1)
}
