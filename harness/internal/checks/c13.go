package checks

import (
	"encoding/binary"
	"fmt"
	"os"
	"path/filepath"
	"strings"
	"sync"
	"time"

	"github.com/ipld/go-storethehash/store/freelist"
	"github.com/ipld/go-storethehash/store/types"

	"verif/harness/internal/core"
	"verif/harness/internal/crash"
	"verif/harness/internal/gen"
	"verif/harness/internal/hookrt"
	"verif/harness/internal/run"
	"verif/harness/internal/seq"
)

func init() {
	run.Register(&run.Check{
		ID:    "C13",
		Level: "exploration",
		Cases: func(tier string) int { return tierN(tier, 3000, 60000) + c13TrailCount(tier) },
		Run:   runC13,
		Rule: "sequential slice: case = (multihash configuration with small files, key universe, history with a Flush after every mutating call, primary/index GC cycles, restarts); at every quiescent point the on-disk layout is decoded by fsck and the multiset of locations that stopped being current since the previous point (overwritten, removed, relocated) must equal the multiset of entries appended to the freelist file (plus batches captured at the hand-over hook); batches consumed by GC must be dead afterwards and no location is marked twice or while current; " +
			"non-trivial iff >=3 comparison points and >=2 freelist entries were observed; distinct = hash of (configuration, digests, operations). Concurrent family (a quarter of the last 320/6000 cases, freelist package boundary): 2-6 producers Put 500-2500 unique blocks each while one goroutine loops Flush / Pending+FlushN (the store's commit pattern) and one loops ToGC + read + delete of the hand-over file, with delays injected at the hooks between rename and reopen and around the pool swap; after Close the multiset handed over plus the multiset left in the file must equal the multiset produced (no loss, no duplicate, no split entry). Store-level concurrent families (a quarter each of the trailing cases; oracle on the closed store: every batch handed to GC is captured at the hand-over point, and no location may occur twice in captured batches + freelist file + hand-over file, no location the index treats as current may occur there or carry the deleted bit, and every complete unmarked primary record that is not current must occur there): gated windows G18/G18b/G19 (a Put or Remove of key K parked after it read K's old location while a primary GC cycle relocates K's record), G20 (Close while the background collector is parked inside a relocation, then a restart) and C06-style stress runs (clients + flusher + harness-driven or background collectors). Crash family (a quarter of the trailing cases): a history with GC cycles on unflushed state is imaged at every hook point and after every call; on each image fsck resolves the locations a restarted store would treat as current (log replay) and none of them may be on the freelist, in the hand-over file or marked deleted",
		Assumptions: []string{
			"a flush after every mutating call makes each interval's superseded set exact; GC runs only on flushed state here (GC on unflushed state is explored by C04)",
			"locations are never reused (file numbers only grow in the explored range)",
		},
	})
}

func c13SeqCount(tier string) int   { return tierN(tier, 3000, 60000) }
func c13TrailCount(tier string) int { return tierN(tier, 320, 6000) }

func runC13(c run.Ctx) *core.CaseResult {
	if c.Index >= c13SeqCount(c.Tier) {
		j := c.Index - c13SeqCount(c.Tier)
		switch j % 4 {
		case 1:
			return runC13Crash(c)
		case 2:
			return runC13Gated(c, j/4)
		case 3:
			return runC13ConcStress(c, j/4)
		}
		return runC13FreelistStress(c)
	}
	return runC13Seq(c)
}

// runC13Crash: "no location that is still current is ever recorded" across restarts: a history with
// GC cycles on unflushed state is imaged at every hook point and after every call; on each image fsck
// resolves what a restarted store would treat as current (log replay) and no such location may be on
// the freelist, in the hand-over file, or carry the deleted bit.
func runC13Crash(c run.Ctx) *core.CaseResult {
	sc := c04Case(run.Ctx{Prop: "C13crash", Seed: c.Seed, Index: c.Index, Tier: c.Tier}, "C13crash")
	res := &core.CaseResult{ID: c.ID(), Verdict: "held"}
	env, err := core.NewEnv(sc.cfg)
	if err != nil {
		res.Verdict = "inconclusive"
		return res
	}
	defer env.Cleanup()
	rt := hookrt.New()
	rt.Install()
	defer hookrt.Uninstall()
	rc := crash.NewRecorder(env.Root, rt)
	sub := &core.CaseResult{}
	rn := seq.NewRunner(env, sc.u, rt, sub, seq.Opts{})
	if !rn.Open() {
		return res
	}
	rc.Enabled = true
	for i, o := range sc.ops {
		if o.Kind == "reopen" || o.Kind == "iter" {
			continue
		}
		rc.Call = i
		rn.Exec(i, o)
		rc.Capture("after-call")
	}
	rc.Enabled = false
	rn.Finish()
	step := 1
	if len(rc.Points) > 150 {
		step = len(rc.Points) / 150
	}
	examined := 0
	for j := 0; j < len(rc.Points); j += step {
		p := rc.Points[j]
		sub2 := &core.CaseResult{}
		fsckImage(sub2, p.Img, sc.cfg, "c13_crash_image", p.Hook, nil)
		examined++
		for _, v := range sub2.Violations {
			if strings.HasPrefix(v.Sig, "fsck-live-on-freelist") || strings.HasPrefix(v.Sig, "fsck-entry-target-deleted") {
				res.Violate("current-location-freed", "c13-crash-"+strings.SplitN(v.Sig, "@", 2)[0], p.Call, map[string]any{"hook": p.Hook, "files": p.Img.Listing()}, "a crash at %s (call %d) would leave a store whose index still treats a location as current although it is %s", p.Hook, p.Call, v.Msg)
			}
		}
		if len(res.Violations) >= 4 {
			break
		}
	}
	res.Add("c13_crash_images_examined", int64(examined))
	res.Add("c13_crash_cases", 1)
	res.Hash = caseHash(sc.cfg, sc.u, sc.ops)
	res.NonTrivial = examined >= 10
	if (c.Index-c13SeqCount(c.Tier)) < 4 || res.Verdict == "violated" {
		res.Sample = map[string]any{"case": c.ID(), "kind": "crash-slice", "config": sc.cfg, "images": len(rc.Points), "examined": examined, "ops": opsStrings(sc.ops, 30)}
	}
	return res
}

// runC13FreelistStress: exactly-once delivery through the freelist's buffering, flushing and
// hand-over rotation under concurrency (freelist package boundary).
func runC13FreelistStress(c run.Ctx) *core.CaseResult {
	res := &core.CaseResult{ID: c.ID(), Verdict: "held"}
	r := gen.Rng(c.Seed, propStream("C13fl"), uint64(c.Index))
	dir, err := os.MkdirTemp(core.Scratch(), "vchk-fl-")
	if err != nil {
		res.Verdict = "inconclusive"
		return res
	}
	defer os.RemoveAll(dir)
	rt := hookrt.New()
	rt.Install()
	defer hookrt.Uninstall()
	// widen the window between rename and reopen of the hand-over, and around flush
	rt.Delay = func(name string, hit int64, goid int64) time.Duration {
		switch name {
		case "fl.togc.renamed", "fl.togc.before-rename", "fl.flush.swapped", "fl.flush.before-write":
			if (uint64(hit)*2654435761+uint64(c.Index))%5 == 0 {
				return time.Duration(50+hit%300) * time.Microsecond
			}
		}
		return 0
	}
	path := filepath.Join(dir, "t.free")
	fl, err := freelist.Open(path)
	if err != nil {
		res.Verdict = "inconclusive"
		return res
	}
	nprod := 2 + r.IntN(5)
	per := 500 + r.IntN(2000)
	var wg, bg sync.WaitGroup
	stop := make(chan struct{})
	for p := 0; p < nprod; p++ {
		wg.Add(1)
		go func(p int) {
			defer wg.Done()
			for i := 0; i < per; i++ {
				fl.Put(types.Block{Offset: types.Position(uint64(p+1)<<32 | uint64(i)), Size: types.Size(10 + i%50)})
			}
		}(p)
	}
	var flushes, partial int64
	bg.Add(1)
	go func() {
		defer bg.Done()
		for {
			select {
			case <-stop:
				return
			default:
			}
			// alternately a complete flush and the store's commit pattern: take Pending, let producers
			// go on, then flush exactly that many entries
			var err error
			if flushes++; flushes%2 == 0 {
				_, err = fl.Flush()
			} else {
				n := fl.Pending()
				time.Sleep(time.Duration(10+r.IntN(100)) * time.Microsecond)
				_, err = fl.FlushN(n)
				partial++
			}
			if err != nil {
				res.Violate("freelist-flush-error", "c13-fl-flush-error", 0, nil, "Flush: %v", err)
				return
			}
			time.Sleep(time.Duration(20+r.IntN(200)) * time.Microsecond)
		}
	}()
	consumed := map[uint64]int{}
	var handovers, handoverEntries int64
	consume := func() bool {
		gc, err := fl.ToGC()
		if err != nil {
			res.Violate("freelist-togc-error", "c13-fl-togc-error", 0, nil, "ToGC: %v", err)
			return false
		}
		b, err := os.ReadFile(gc)
		if err != nil {
			res.Violate("freelist-gc-file", "c13-fl-gc-file-unreadable", 0, nil, "hand-over file: %v", err)
			return false
		}
		if len(b)%12 != 0 {
			res.Violate("freelist-torn-entry", "c13-fl-torn-entry", 0, nil, "hand-over file has %d bytes, not a multiple of 12 (an entry was split across the rotation)", len(b))
		}
		for p := 0; p+12 <= len(b); p += 12 {
			consumed[binary.LittleEndian.Uint64(b[p:])]++
			handoverEntries++
		}
		handovers++
		os.Remove(gc)
		return true
	}
	bg.Add(1)
	cdone := make(chan struct{})
	go func() {
		defer bg.Done()
		defer close(cdone)
		for {
			select {
			case <-stop:
				return
			default:
			}
			if !consume() {
				return
			}
			time.Sleep(time.Duration(100+r.IntN(400)) * time.Microsecond)
		}
	}()
	wg.Wait()
	close(stop)
	bg.Wait()
	rt.Delay = nil
	if _, err := fl.Flush(); err != nil {
		res.Violate("freelist-flush-error", "c13-fl-flush-error", 0, nil, "final Flush: %v", err)
	}
	consume()
	if err := fl.Close(); err != nil {
		res.Violate("freelist-close-error", "c13-fl-close-error", 0, nil, "Close: %v", err)
	}
	if b, err := os.ReadFile(path); err == nil {
		for p := 0; p+12 <= len(b); p += 12 {
			consumed[binary.LittleEndian.Uint64(b[p:])]++
		}
	}
	lost, dup := 0, 0
	for p := 0; p < nprod; p++ {
		for i := 0; i < per; i++ {
			switch n := consumed[uint64(p+1)<<32|uint64(i)]; {
			case n == 0:
				lost++
			case n > 1:
				dup++
			}
		}
	}
	if lost > 0 {
		res.Violate("freelist-entry-lost", "c13-fl-entry-lost", 0, nil, "%d of %d freelist entries were neither handed to the consumer nor left in the file", lost, nprod*per)
	}
	if dup > 0 {
		res.Violate("freelist-entry-duplicated", "c13-fl-entry-duplicated", 0, nil, "%d freelist entries were delivered more than once", dup)
	}
	if len(consumed) != nprod*per {
		res.Violate("freelist-entry-spurious", "c13-fl-entry-spurious", 0, nil, "consumer saw %d distinct entries, %d were produced", len(consumed), nprod*per)
	}
	res.Add("freelist_stress_runs", 1)
	res.Add("freelist_stress_entries_produced", int64(nprod*per))
	res.Add("freelist_stress_handovers", handovers)
	res.Add("freelist_stress_partial_flushes", partial)
	res.Add("freelist_stress_entries_via_handover", handoverEntries)
	res.Hash = core.HashStrings("flstress", fmt.Sprint(c.Index, nprod, per, handovers))
	res.NonTrivial = handovers >= 3 && handoverEntries > 0
	if c.Index == c13SeqCount(c.Tier) {
		res.Sample = map[string]any{"case": c.ID(), "kind": "freelist-concurrent-stress", "producers": nprod, "entries_each": per, "handovers": handovers, "entries_via_handover": handoverEntries}
	}
	return res
}

var _ = core.HashStrings
