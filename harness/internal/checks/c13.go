package checks

import (
	"verif/harness/internal/core"
	"verif/harness/internal/run"
)

func init() {
	run.Register(&run.Check{
		ID:    "C13",
		Level: "exploration",
		Cases: func(tier string) int { return tierN(tier, 3000, 60000) },
		Run:   runC13,
		Rule: "sequential slice: case = (multihash configuration with small files, key universe, history with a Flush after every mutating call, primary/index GC cycles, restarts); at every quiescent point the on-disk layout is decoded by fsck and the multiset of locations that stopped being current since the previous point (overwritten, removed, relocated) must equal the multiset of entries appended to the freelist file (plus batches captured at the hand-over hook); batches consumed by GC must be dead afterwards and no location is marked twice or while current; " +
			"non-trivial iff >=3 comparison points and >=2 freelist entries were observed; distinct = hash of (configuration, digests, operations)",
		Assumptions: []string{
			"a flush after every mutating call makes each interval's superseded set exact; GC runs only on flushed state here (GC on unflushed state is explored by C04)",
			"locations are never reused (file numbers only grow in the explored range)",
		},
	})
}

func runC13(c run.Ctx) *core.CaseResult {
	return runC13Seq(c)
}

var _ = core.HashStrings
