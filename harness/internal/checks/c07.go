package checks

import (
	"verif/harness/internal/core"
	"verif/harness/internal/gen"
	"verif/harness/internal/run"
	"verif/harness/internal/seq"
)

func init() {
	run.Register(&run.Check{
		ID:    "C07",
		Level: "exploration",
		Cases: func(tier string) int { return tierN(tier, 3000, 40000) },
		Run:   runC07,
		Rule: "case = one history from the C01 (plain), C04 (GC cycles, with and without preceding flush, time-limited) or C02 (Close/reopen through snapshot and rescan) generators, by case index mod 3; after every completed Flush, after every Close and at the end the independent fsck reader evaluates the C07 invariant on the authoritative bucket table (live table while open, snapshot after Close); only fsck problems are verdicts here; " +
			"non-trivial iff >=3 quiescent states were examined AND >=2 keys shared a bucket AND a file rolled over; distinct = hash of (configuration, digests, operations). Post-crash and post-concurrency states are examined by the C03/C05/C06 checks with the same fsck.",
		Assumptions: []string{
			"fsck (internal/fsck) shares no parsing code with /repo; formats as in DESIGN.md Appendix A",
			"the invariant is exactly the statement's list; unreferenced garbage, stale lists, zero-length files and empty record lists are legal",
		},
		Post: func(cov map[string]any, st map[string]int64, tier string) {
			cov["quiescent_states_examined"] = st["fsck_states_flush"] + st["fsck_states_final"] + st["fsck_states_close"]
			cov["states_by_origin"] = map[string]int64{"flush": st["fsck_states_flush"], "final": st["fsck_states_final"], "close": st["fsck_states_close"]}
		},
	})
}

func runC07(c run.Ctx) *core.CaseResult {
	nt := func(res *core.CaseResult) bool {
		n := res.Stats["fsck_states_flush"] + res.Stats["fsck_states_final"] + res.Stats["fsck_states_close"]
		return n >= 3 && res.HasFlag("shared-bucket") && (res.HasFlag("index-rollover") || res.HasFlag("primary-rollover"))
	}
	switch c.Index % 3 {
	case 0:
		cc := c
		cfg, u, ops := c01Config(run.Ctx{Prop: "C07", Seed: c.Seed, Index: c.Index, Tier: c.Tier})
		_ = cc
		return runSeq(c, seqCase{cfg, *u, ops}, seq.Opts{FsckAtFlush: true, OnlyFsck: true}, nt)
	case 1:
		sc := c04Case(c, "C07")
		return runSeq(c, sc, seq.Opts{FsckAtFlush: true, OnlyFsck: true, FinalReopen: true}, nt)
	default:
		r := gen.Rng(c.Seed, propStream("C07"), uint64(c.Index))
		cfg := gen.PickConfig(r, false, true, 16)
		u := gen.MakeUniverse(r, cfg.Primary, 4+r.IntN(30))
		p := seq.Profile{N: 60 + r.IntN(140), Keys: len(u.Keys), Reopen: true, GC: cfg.Primary == gen.MH, GCLimit: true, RemoveHeavy: true}
		ops := seq.GenOps(r, p)
		ops = append(ops, seq.Op{Kind: "reopen", A: r.IntN(3), B: 1})
		return runSeq(c, seqCase{cfg, u, ops}, seq.Opts{FsckAtFlush: true, OnlyFsck: true, FinalReopen: true}, nt)
	}
}

// ------------------------------------------------------------------ C13 (sequential slice; see c13.go for the rest)

func runC13Seq(c run.Ctx) *core.CaseResult {
	sc := c13SeqCase(c)
	return runSeq(c, sc, seq.Opts{Conservation: true},
		func(res *core.CaseResult) bool {
			return res.Stats["conservation_points"] >= 3 && res.Stats["freelist_entries_observed"] >= 2
		})
}
