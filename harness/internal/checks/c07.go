package checks

import (
	"fmt"
	"os"

	"verif/harness/internal/core"
	"verif/harness/internal/crash"
	"verif/harness/internal/gen"
	"verif/harness/internal/hookrt"
	"verif/harness/internal/run"
	"verif/harness/internal/seq"
)

func init() {
	run.Register(&run.Check{
		ID:    "C07",
		Level: "exploration",
		Cases: func(tier string) int { return tierN(tier, 3000, 16000) },
		Run:   runC07,
		Rule: "case = one history from the C01 (plain), C04 (GC cycles, with and without preceding flush, time-limited) or C02 (Close/reopen through snapshot and rescan) generators, by case index mod 3 (plus, case index mod 16 == 7, an index-GC churn history: 40-90 rounds of 1-3 writes + Flush on 60-300 byte index files with an index GC cycle every second or third round); after every completed Flush, after every Close and at the end the independent fsck reader evaluates the C07 invariant on the authoritative bucket table (live table while open, snapshot after Close); only fsck problems are verdicts here, among them that the table a rescan of the index log would build resolves to the same record lists as the live table (the files alone determine the state); " +
			"non-trivial iff >=3 quiescent states were examined AND >=2 keys shared a bucket AND a file rolled over; distinct = hash of (configuration, digests, operations). Crash slice (case index mod 16 == 15): a C03-style history is imaged at every hook point (torn variants included, except torn primary appends = trigger class of known finding C03-F1); fsck is evaluated on each image with the bucket table a rescan would build (log replay - no snapshot exists after a crash); each image is then recovered by OpenStore, used further (puts, flushes, GC cycles) with imaging still on, and fsck is evaluated again on every image of the continuation and on the closed store. Case index mod 16 == 11 alternates between one of C06's scripted collector x caller windows (G7-G11, G24; only the fsck problems found on the closed store count here) and one crash exploration of a legacy-store conversion (as C10, stores without dangling entries). Post-stress states are examined by C05/C06 with the same fsck.",
		Assumptions: []string{
			"fsck (internal/fsck) shares no parsing code with /repo; formats as in DESIGN.md Appendix A",
			"the invariant is exactly the statement's list; unreferenced garbage, stale lists, zero-length files and empty record lists are legal",
		},
		Post: func(cov map[string]any, st map[string]int64, tier string) {
			cov["quiescent_states_examined"] = st["fsck_states_flush"] + st["fsck_states_final"] + st["fsck_states_close"]
			cov["states_by_origin"] = map[string]int64{"flush": st["fsck_states_flush"], "final": st["fsck_states_final"], "close": st["fsck_states_close"], "crash-image": st["fsck_states_crash_image"], "post-recovery-crash-image": st["fsck_states_post_recovery_image"], "post-recovery-closed": st["fsck_states_post_recovery_closed"]}
			cov["quiescent_states_examined"] = st["fsck_states_flush"] + st["fsck_states_final"] + st["fsck_states_close"] + st["fsck_states_crash_image"] + st["fsck_states_post_recovery_image"] + st["fsck_states_post_recovery_closed"]
		},
	})
}

func runC07(c run.Ctx) *core.CaseResult {
	nt := func(res *core.CaseResult) bool {
		n := res.Stats["fsck_states_flush"] + res.Stats["fsck_states_final"] + res.Stats["fsck_states_close"]
		return n >= 3 && res.HasFlag("shared-bucket") && (res.HasFlag("index-rollover") || res.HasFlag("primary-rollover"))
	}
	if c.Index%16 == 15 {
		return runC07Crash(c)
	}
	if c.Index%16 == 11 {
		// post-concurrency and post-upgrade-crash states (the statement quantifies over the explorations of
		// C05/C06 and C10 as well): alternately one of C06's scripted collector x caller windows, with only
		// the fsck problems on the closed store as verdicts, and one crash exploration of a legacy conversion
		j := c.Index / 16
		if j%2 == 0 {
			res := &core.CaseResult{ID: c.ID(), Verdict: "held"}
			c2 := c
			c2.Index = (j / 2) * 8
			runGated(c2, res, "C06")
			res.ID = c.ID()
			var keep []core.Violation
			for _, v := range res.Violations {
				if v.Kind == "fsck" {
					keep = append(keep, v)
				}
			}
			res.Violations = keep
			if len(keep) == 0 && res.Verdict == "violated" {
				res.Verdict = "held"
			}
			res.Add("fsck_states_post_gated_concurrency", 1)
			return res
		}
		for k := 0; k < 40; k++ {
			cc := c10Gen(run.Ctx{Prop: "C07legacy", Seed: c.Seed, Index: c.Index*64 + k, Tier: c.Tier}, true)
			if cc.ls.Dangling == 0 {
				res := c10CrashExplore(c, cc)
				res.Add("legacy_upgrade_crash_cases", 1)
				return res
			}
		}
	}
	if c.Index%16 == 7 {
		// index-GC churn: few small record lists per index file, superseded one after the other over many
		// flushes with an index GC cycle every second or third flush, so that free spans grow record by
		// record across cycles (merge of a newly freed list with lists freed by earlier cycles)
		r := gen.Rng(c.Seed, propStream("C07churn"), uint64(c.Index))
		cfg := gen.Config{Primary: gen.MH, Bits: 8, IndexFileSize: []uint32{60, 100, 150, 300}[r.IntN(4)], PrimaryFileSize: []uint32{300, 4096}[r.IntN(2)], FileCache: []int{0, 2, 512}[r.IntN(3)]}
		u := gen.MakeUniverse(r, cfg.Primary, 8+r.IntN(20))
		var ops []seq.Op
		var vid uint64 = 1
		rounds := 40 + r.IntN(50)
		// (every second churn case writes exactly once per round: one record list per flush, so the
		// order of the lists in the log does not depend on Go's map iteration order)
		single := (c.Index/16)%2 == 0
		for i := 0; i < rounds; i++ {
			nw := 1 + r.IntN(3)
			if single {
				nw = 1
			}
			for j := 0; j < nw; j++ {
				if r.IntN(8) == 0 {
					ops = append(ops, seq.Op{Kind: "rm", K: r.IntN(len(u.Keys))})
				} else {
					ops = append(ops, seq.Op{Kind: "put", K: r.IntN(len(u.Keys)), VID: vid, VLen: 1 + r.IntN(30)})
					vid++
				}
			}
			ops = append(ops, seq.Op{Kind: "flush"})
			if i%2 == 1 || r.IntN(3) == 0 {
				lim := 0
				if (c.Index/32)%2 == 1 && r.IntN(2) == 0 {
					lim = 1 + r.IntN(6) // cycle cut short: a later one resumes in the middle of the file sequence
				}
				ops = append(ops, seq.Op{Kind: "gci", A: r.IntN(2), B: lim}, seq.Op{Kind: "flush"})
			}
		}
		ops = append(ops, seq.Op{Kind: "reopen", A: 1, B: 1})
		return runSeq(c, seqCase{cfg, u, ops}, seq.Opts{FsckAtFlush: true, OnlyFsck: true, FinalReopen: true}, nt)
	}
	switch c.Index % 3 {
	case 0:
		cc := c
		cfg, u, ops := c01Config(run.Ctx{Prop: "C07", Seed: c.Seed, Index: c.Index, Tier: c.Tier})
		_ = cc
		return runSeq(c, seqCase{cfg, *u, ops}, seq.Opts{FsckAtFlush: true, OnlyFsck: true}, nt)
	case 1:
		sc := c04Case(c, "C07")
		return runSeq(c, sc, seq.Opts{FsckAtFlush: true, OnlyFsck: true, FinalReopen: true}, nt)
	default:
		r := gen.Rng(c.Seed, propStream("C07"), uint64(c.Index))
		cfg := gen.PickConfig(r, false, true, 16)
		u := gen.MakeUniverse(r, cfg.Primary, 4+r.IntN(30))
		p := seq.Profile{N: 60 + r.IntN(140), Keys: len(u.Keys), Reopen: true, GC: cfg.Primary == gen.MH, GCLimit: true, RemoveHeavy: true}
		ops := seq.GenOps(r, p)
		ops = append(ops, seq.Op{Kind: "reopen", A: r.IntN(3), B: 1})
		return runSeq(c, seqCase{cfg, u, ops}, seq.Opts{FsckAtFlush: true, OnlyFsck: true, FinalReopen: true}, nt)
	}
}

// ------------------------------------------------------------------ C13 (sequential slice; see c13.go for the rest)

func runC13Seq(c run.Ctx) *core.CaseResult {
	sc := c13SeqCase(c)
	return runSeq(c, sc, seq.Opts{Conservation: true},
		func(res *core.CaseResult) bool {
			return res.Stats["conservation_points"] >= 3 && res.Stats["freelist_entries_observed"] >= 2
		})
}

// ------------------------------------------------------------------ crash slice

// fsckImage evaluates the invariant on a directory image using the bucket table a rescan would
// build (or the snapshot, when the image has a usable one).
func fsckImage(res *core.CaseResult, img core.DirImage, cfg gen.Config, origin, where string, witness any) {
	dir, err := os.MkdirTemp(core.Scratch(), "vchk-fsck-")
	if err != nil {
		return
	}
	defer os.RemoveAll(dir)
	if err := img.Materialize(dir); err != nil {
		return
	}
	env, _ := core.EnvAt(dir, cfg)
	l, err := env.Fsck()
	if err != nil {
		// unparsable header etc.: whether such a store opens is C03's question
		res.Add("fsck_images_unloadable", 1)
		return
	}
	if !l.HasIdxHeader {
		return
	}
	b := l.ReplayBuckets()
	if l.Snapshot != nil && len(l.Snapshot) == l.NumBuckets() {
		b = l.Snapshot
	}
	ps, _ := l.Check(b)
	res.Add("fsck_states_"+origin, 1)
	for i, p := range ps {
		if i >= 2 {
			break
		}
		res.Violate("fsck", "fsck-"+p.Clause+"@"+origin, 0, witness, "[%s %s] %s", origin, where, p)
	}
}

func runC07Crash(c run.Ctx) *core.CaseResult {
	genTier := c.Tier
	if (c.Index/16)%4 == 3 {
		genTier = "burst" // a quarter of the crash-slice cases use the burst generator (>1024 frees between two flushes)
	}
	cfg, u, ops, r := c03Case(run.Ctx{Prop: "C07", Seed: c.Seed, Index: c.Index, Tier: genTier})
	res := &core.CaseResult{ID: c.ID(), Verdict: "held"}
	env, err := core.NewEnv(cfg)
	if err != nil {
		res.Verdict = "inconclusive"
		return res
	}
	defer env.Cleanup()
	rt := hookrt.New()
	rt.Install()
	defer hookrt.Uninstall()
	rc := crash.NewRecorder(env.Root, rt)
	sub := &core.CaseResult{}
	rn := seq.NewRunner(env, u, rt, sub, seq.Opts{})
	rc.Enabled = true
	rc.Capture("before-first-open")
	if !rn.Open() {
		return res
	}
	for i, o := range ops {
		rc.Call = i
		rn.Exec(i, o)
		rc.Capture("after-call")
	}
	rc.Enabled = false
	rn.Finish()
	var all []crash.Point
	var multi int64
	for i, p := range rc.Points {
		if i > 0 {
			for _, v := range crash.Variants(rc.Points[i-1], p, c.Tier == "thorough", &multi) {
				if kindClass(v.Kind) == "torn-append:primary" {
					continue // trigger class of known finding C03-F1
				}
				all = append(all, v)
			}
		}
		all = append(all, p)
	}
	for k := range crash.MultiHooks {
		delete(crash.MultiHooks, k)
	}
	limit := 12
	if c.Tier == "thorough" {
		limit = 30
	}
	stride := 1
	if len(all) > limit {
		stride = (len(all) + limit - 1) / limit
	}
	seen := map[string]bool{}
	for i := r.IntN(stride); i < len(all); i += stride {
		p := all[i]
		h := p.Img.Hash()
		if seen[h] {
			continue
		}
		seen[h] = true
		where := fmt.Sprintf("%s/%s", p.Hook, kindClass(p.Kind))
		witness := map[string]any{"hook": p.Hook, "variant": p.Kind, "files": p.Img.Listing()}
		fsckImage(res, p.Img, cfg, "crash_image", where, witness)
		// recover, continue with imaging on, fsck every continuation image
		dir, err := os.MkdirTemp(core.Scratch(), "vchk-rec7-")
		if err != nil {
			continue
		}
		func() {
			defer os.RemoveAll(dir)
			if p.Img.Materialize(dir) != nil {
				return
			}
			env2, _ := core.EnvAt(dir, cfg)
			rt2 := hookrt.New()
			rt2.Install()
			rc2 := crash.NewRecorder(dir, rt2)
			sub2 := &core.CaseResult{}
			rn2 := seq.NewRunner(env2, u, rt2, sub2, seq.Opts{})
			rc2.Enabled = true
			if !rn2.Open() {
				return // C03 decides whether that is acceptable
			}
			// adopt whatever the recovered store holds (contents are C03's subject)
			for _, k := range u.Keys {
				if v, found, err := rn2.S.Get(append([]byte{}, k.Raw...)); err == nil && found {
					rn2.M.M[string(k.Digest)] = append([]byte{}, v...)
				}
			}
			cr := gen.Rng(int64(i), 31, uint64(len(p.Img)))
			vid := uint64(1 << 41)
			var cont []seq.Op
			for j := 0; j < 6+cr.IntN(6); j++ {
				if cr.IntN(4) == 0 {
					cont = append(cont, seq.Op{Kind: "rm", K: cr.IntN(len(u.Keys))})
				} else {
					cont = append(cont, seq.Op{Kind: "put", K: cr.IntN(len(u.Keys)), VID: vid, VLen: 1 + cr.IntN(50)})
					vid++
				}
				if cr.IntN(2) == 0 {
					cont = append(cont, seq.Op{Kind: "flush"})
				}
			}
			cont = append(cont, seq.Op{Kind: "flush"})
			if cfg.Primary == gen.MH {
				cont = append(cont, seq.Op{Kind: "gcp", A: 50}, seq.Op{Kind: "flush"}, seq.Op{Kind: "gci", A: 1}, seq.Op{Kind: "flush"})
			}
			for j, o := range cont {
				rn2.Exec(j, o)
				rc2.Capture("after-call")
			}
			rc2.Enabled = false
			rn2.Finish()
			// every image of the continuation is again a possible crash state
			step := 1
			if len(rc2.Points) > 12 {
				step = len(rc2.Points) / 12
			}
			for j := 0; j < len(rc2.Points); j += step {
				q := rc2.Points[j]
				fsckImage(res, q.Img, cfg, "post_recovery_image", where+" then "+q.Hook, witness)
			}
			if img, err := core.Snapshot(dir); err == nil {
				fsckImage(res, img, cfg, "post_recovery_closed", where, witness)
			}
		}()
		rt.Install()
		if len(res.Violations) >= 6 {
			break
		}
	}
	res.Add("crash_images_examined", int64(len(seen)))
	res.Hash = caseHash(cfg, u, ops)
	res.NonTrivial = len(seen) >= 10
	res.Flag("crash-slice")
	if c.Index < 16 || res.Verdict == "violated" {
		res.Sample = map[string]any{"case": c.ID(), "kind": "crash-slice", "config": cfg, "ops": opsStrings(ops, 30), "images_and_variants": len(all), "examined": len(seen)}
	}
	return res
}
