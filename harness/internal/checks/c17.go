package checks

import (
	"context"
	"fmt"
	"os"
	"path/filepath"
	"runtime/pprof"
	"strings"
	"time"

	"github.com/ipld/go-storethehash/store"

	"verif/harness/internal/core"
	"verif/harness/internal/gen"
	"verif/harness/internal/hookrt"
	"verif/harness/internal/legacy"
	"verif/harness/internal/run"
	"verif/harness/internal/seq"
)

// C17: Close stops all background activity and releases every resource.

var c17GCHooks = []string{
	"index.gc.cycle.start", "index.gc.file.start", "index.gc.reap.before-busy", "index.gc.reap.after-busy", "index.gc.reap.before-mark", "index.gc.reap.before-truncate", "index.gc.reap.after-truncate",
	"index.gc.stale", "index.gc.before-header", "index.gc.before-remove", "index.gc.free.scanned", "index.gc.free.before-header", "index.gc.free.before-remove", "index.gc.cycle.end",
	"mh.gc.cycle.start", "mh.gc.freelist.after-togc", "mh.gc.freelist.before-mark", "mh.gc.freelist.before-remove-gc", "mh.gc.after-freelist", "mh.gc.file.start", "mh.gc.reap.before-merge",
	"mh.gc.reap.before-truncate", "mh.gc.reap.after-truncate", "mh.gc.relocate.read", "mh.gc.relocate.after-put", "mh.gc.relocate.after-update", "mh.gc.relocate.after-free", "mh.gc.before-header", "mh.gc.before-remove", "mh.gc.cycle.end",
	"fl.togc.entry", "fl.togc.before-rename", "fl.togc.renamed", "fl.togc.reopened",
}

var c17FailKinds = []string{"index-file-size-mismatch", "primary-file-size-mismatch", "corrupt-index-header", "empty-index-header", "corrupt-primary-header", "unsupported-primary-type",
	"cancelled-context", "interrupted-translation-leftover", "translation-unreadable-index-file", "translation-fails-double-mismatch", "translation-fails-primary-truncated", "bits-out-of-range", "index-file-size-too-large", "primary-file-size-too-large",
	"legacy-index-ends-inside-size-prefix", "legacy-index-ends-inside-record"}

func c17Counts(tier string) (closeRandom, gated, flushParked, failing, cycles int) {
	if tier == "thorough" {
		return 900, len(c17GCHooks) * 20, 200, len(c17FailKinds) * 40, 8
	}
	return 60, len(c17GCHooks) * 2, 16, len(c17FailKinds) * 5, 1
}

func init() {
	run.Register(&run.Check{
		ID:    "C17",
		Level: "exploration",
		Race:  true,
		Cases: func(tier string) int {
			a, b, c, d, e := c17Counts(tier)
			f, g := c17Extra(tier)
			return a + b + c + d + e + f + g
		},
		Run:             runC17,
		CaseTimeout:     3 * time.Minute,
		HangIsViolation: true,
		Rule: "seven families: (1) Close at a PRNG-chosen moment of a history run with the started flusher (1 ms) and background collectors (1-5 ms, with/without time limit) on small files; (2) Close issued while a background GC cycle is parked at a GC hook (each of the index/primary collector and freelist hand-over hook points in turn; the gate is released a few ms after Close passed its entry hook); (3) Close while the flusher is parked inside a flush with rate-limited writers waiting; (4) failing opens (file-size mismatches, corrupt/empty headers, unsupported primary type, cancelled context, interrupted/unreadable translation, illegal sizes, legacy-format stores whose index file ends inside a size prefix or inside a record) followed by a correct open; (5) 200 open/use/close cycles in one process; (6) scripted descriptor windows: G22 (a read obtains a private handle while the file cache is disabled and gives it back after the cache was enabled and holds another handle of the same file) G23 (readers while SetFileCacheSize switches the cache off and on) and C06's collector x caller windows G7-G11, G24, Go's collector switched off so that no finalizer closes a leaked handle, descriptors into the store directory examined after Close; (7) Close that has to write while the write cannot succeed (the next primary file already exists / the next index file is a directory, with or without the flusher having hit the fault first): whatever Close returns, the same post-Close oracle applies, also after a second Close. Oracle after Close returned nil: no hook event of the store fires any more (immediately and after >= 20 GC intervals), no descriptor under the store's directories is open, no goroutine with a go-storethehash frame stays blocked over three goroutine profiles, the directory content hash does not change, and a reopened store shows the model's contents before and after a primary + index GC cycle; after a failed open no new descriptor or store goroutine exists and a correct open finds the contents; counts do not grow over cycles. " +
			"non-trivial iff the store had background activity during the case (GC hook events or flusher commits observed) or, for family 4, the failing open was really refused; distinct = family x hook/kind x observed event-order hash",
		Assumptions: []string{
			"clients have stopped calling when Close is issued (calls racing with Close are misuse), except rate-limited writers already waiting in family 3",
			"a goroutine that is merely finishing its return is runnable, not blocked, and is resampled",
		},
	})
}

// storeGoroutines returns the blocked goroutines that have a go-storethehash frame (not the harness').
func storeGoroutines() []string {
	var b strings.Builder
	pprof.Lookup("goroutine").WriteTo(&b, 2)
	var out []string
	for _, g := range strings.Split(b.String(), "\n\n") {
		if !strings.Contains(g, "github.com/ipld/go-storethehash/") {
			continue
		}
		// frames of the harness calling into the store do not count
		if strings.Contains(g, "verif/harness/") {
			continue
		}
		hdr := g
		if i := strings.IndexByte(g, '\n'); i >= 0 {
			hdr = g[:i]
		}
		blocked := false
		for _, st := range []string{"chan receive", "select", "sleep", "semacquire", "IO wait", "chan send", "sync.Mutex", "sync.RWMutex", "sync.Cond", "sync.WaitGroup"} {
			if strings.Contains(hdr, st) {
				blocked = true
			}
		}
		if blocked {
			out = append(out, g)
		}
	}
	return out
}

func leakedGoroutines() []string {
	var last []string
	for i := 0; i < 3; i++ {
		last = storeGoroutines()
		if len(last) == 0 {
			return nil
		}
		time.Sleep(15 * time.Millisecond)
	}
	return last
}

func fdsUnder(dir string) []string {
	ents, err := os.ReadDir("/proc/self/fd")
	if err != nil {
		return nil
	}
	var out []string
	for _, en := range ents {
		t, err := os.Readlink("/proc/self/fd/" + en.Name())
		if err == nil && strings.HasPrefix(t, dir+"/") {
			out = append(out, t)
		}
	}
	return out
}

// afterClose evaluates the C17 oracle once Close has returned.
func afterClose(res *core.CaseResult, env *core.Env, rt *hookrt.RT, what string, wait time.Duration) {
	ev0 := rt.Total()
	h0, _ := core.Snapshot(env.Root)
	hash0 := h0.Hash()
	if fds := fdsUnder(env.Root); len(fds) > 0 {
		res.Violate("descriptor-open-after-close", "c17-fd-after-close:"+what, 0, fds, "%s: %d descriptor(s) into the store's directories are still open after Close returned: %v", what, len(fds), fds)
	}
	if gs := leakedGoroutines(); len(gs) > 0 {
		res.Violate("goroutine-after-close", "c17-goroutine-after-close:"+what, 0, gs, "%s: %d store goroutine(s) are still blocked after Close returned, e.g. %s", what, len(gs), firstLines(gs[0], 6))
	}
	time.Sleep(wait)
	if ev1 := rt.Total(); ev1 != ev0 {
		evs := rt.Events()
		var tail []string
		for i := len(evs) - 1; i >= 0 && len(tail) < 8; i-- {
			tail = append(tail, evs[i].Name)
		}
		res.Violate("activity-after-close", "c17-activity-after-close:"+what, 0, tail, "%s: %d store hook event(s) fired after Close returned (last events, newest first: %v)", what, ev1-ev0, tail)
	}
	h1, _ := core.Snapshot(env.Root)
	if h1.Hash() != hash0 {
		res.Violate("directory-changed-after-close", "c17-dir-changed-after-close:"+what, 0, map[string]any{"before": h0.Listing(), "after": h1.Listing()}, "%s: the store's directory changed after Close returned", what)
	}
	res.Add("post_close_observations", 1)
}

func firstLines(s string, n int) string {
	ls := strings.Split(s, "\n")
	if len(ls) > n {
		ls = ls[:n]
	}
	return strings.Join(ls, " | ")
}

func c17Config(r interface{ IntN(int) int }) gen.Config {
	return gen.Config{Primary: gen.MH, Bits: []uint8{8, 9, 12}[r.IntN(3)], IndexFileSize: []uint32{40, 100, 300}[r.IntN(3)], PrimaryFileSize: []uint32{40, 100, 300}[r.IntN(3)], FileCache: []int{0, 2, 512}[r.IntN(4)%3]}
}

func runC17(c run.Ctx) *core.CaseResult {
	res := &core.CaseResult{ID: c.ID(), Verdict: "held"}
	a, b, cc, d, _ := c17Counts(c.Tier)
	switch {
	case c.Index < a:
		c17CloseCase(c, res, "", "")
	case c.Index < a+b:
		c17CloseCase(c, res, c17GCHooks[(c.Index-a)%len(c17GCHooks)], "")
	case c.Index < a+b+cc:
		c17CloseCase(c, res, "", "flush-parked")
	case c.Index < a+b+cc+d:
		c17FailingOpen(c, res, c17FailKinds[(c.Index-a-b-cc)%len(c17FailKinds)])
	default:
		_, _, _, _, e := c17Counts(c.Tier)
		f, _ := c17Extra(c.Tier)
		j := c.Index - (a + b + cc + d)
		switch {
		case j < e:
			c17Cycles(c, res)
		case j < e+f:
			c17Gated(c, res, j-e)
		default:
			c17CloseFails(c, res, c17CloseFailKinds[(j-e-f)%len(c17CloseFailKinds)])
		}
	}
	return res
}

// c17CloseCase: history with background activity, then Close (optionally with a collector
// parked at gateHook, or the flusher parked mid-flush), then the oracle, reopen and probe.
func c17CloseCase(c run.Ctx, res *core.CaseResult, gateHook, special string) {
	r := gen.Rng(c.Seed, propStream("C17"), uint64(c.Index))
	cfg := c17Config(r)
	env, err := core.NewEnv(cfg)
	if err != nil {
		res.Verdict = "inconclusive"
		return
	}
	defer env.Cleanup()
	rt := hookrt.New()
	rt.LogEvents = true
	rt.MaxEvents = 100000
	rt.Install()
	defer hookrt.Uninstall()
	gcInt := time.Duration(1+r.IntN(5)) * time.Millisecond
	extra := []store.Option{store.GCInterval(gcInt), store.SyncInterval(time.Millisecond)}
	if r.IntN(2) == 0 {
		extra = append(extra, store.GCTimeLimit(time.Millisecond))
	}
	if special == "flush-parked" {
		extra = append(extra, store.BurstRate(1))
	}
	u := gen.MakeUniverse(r, cfg.Primary, 4+r.IntN(10))
	rn := seq.NewRunner(env, u, rt, res, seq.Opts{Extra: extra})
	if !rn.Open() {
		return
	}
	rn.S.Start()
	what := "close-during-activity"
	var gate *hookrt.Gate
	if gateHook != "" {
		what = "close-while-gc-parked@" + gateHook
		gate = hookrt.NewGate(gateHook, 1+r.IntN(3), 4*time.Second)
		rt.AddGate(gate)
	}
	// a single client keeps the model exact while collectors and the flusher run
	ops := seq.GenOps(r, seq.Profile{N: 40 + r.IntN(120), Keys: len(u.Keys), RemoveHeavy: true, NoHuge: true})
	for i, o := range ops {
		if o.Kind == "flush" && r.IntN(2) == 0 {
			continue
		}
		if gate != nil {
			select {
			case <-gate.Arrived:
				// collector parked: stop issuing calls (some need the collector's locks), go and Close
				goto closing
			default:
			}
		}
		rn.Exec(i, o)
		if res.Verdict == "violated" {
			break
		}
		if r.IntN(6) == 0 {
			time.Sleep(time.Duration(r.IntN(1500)) * time.Microsecond)
		}
	}
closing:
	if res.Verdict == "violated" {
		rn.Finish()
		res.Sample = map[string]any{"case": c.ID(), "family": what, "config": cfg, "ops": opsStrings(ops, 200)}
		return
	}
	if gate != nil {
		if !gate.WaitArrived(3 * time.Second) {
			res.Add("gate_not_attained", 1)
			what = "close-during-activity(gate " + gateHook + " not attained)"
			gate.Open()
			gate = nil
		} else {
			res.Flag("collector-parked-mid-cycle")
			res.Add("closes_with_collector_parked@"+gateHook, 1)
		}
	}
	var fgate *hookrt.Gate
	if special == "flush-parked" {
		what = "close-while-flush-parked-with-waiting-writers"
		fgate = hookrt.NewGate("store.flush.after-commit", 1, 4*time.Second)
		rt.AddGate(fgate)
		// writers that will wait for a flush notice
		for w := 0; w < 2; w++ {
			go func(w int) {
				rn.S.VerifSetFlushRate(1e-9)
				rn.S.Put(append([]byte{}, u.Keys[w%len(u.Keys)].Raw...), gen.Value(uint64(7000+w), 30))
			}(w)
		}
		if !fgate.WaitArrived(3 * time.Second) {
			res.Add("gate_not_attained", 1)
			fgate.Open()
			fgate = nil
			what = "close-during-activity(flush gate not attained)"
		} else {
			res.Flag("flusher-parked-mid-flush")
		}
		// these two puts are not in the model: remove them from the comparison by re-reading later
	}
	gcEvents := int64(0)
	for n, v := range rt.Counts() {
		if strings.HasPrefix(n, "mh.gc.") || strings.HasPrefix(n, "index.gc.") {
			gcEvents += v
		}
	}
	res.Add("gc_hook_events_before_close", gcEvents)
	res.Add("flusher_commits_before_close", rt.Count("store.flush.after-commit"))
	// Close; a parked collector/flusher is released shortly after Close passed its entry hook
	closeDone := make(chan error, 1)
	entry0 := rt.Count("store.close.entry")
	go func() { closeDone <- rn.S.Close() }()
	if gate != nil || fgate != nil {
		for i := 0; i < 2000 && rt.Count("store.close.entry") == entry0; i++ {
			time.Sleep(100 * time.Microsecond)
		}
		time.Sleep(time.Duration(1+r.IntN(8)) * time.Millisecond)
		if gate != nil {
			gate.Open()
		}
		if fgate != nil {
			fgate.Open()
		}
	}
	cerr := <-closeDone // a Close that never returns is reported by the worker watchdog with a goroutine dump
	rt.ClearGates()
	if cerr != nil {
		res.Violate("close-error", "c17-close-error:"+what, 0, nil, "%s: Close returned %v", what, cerr)
	}
	afterClose(res, env, rt, what, 20*gcInt+10*time.Millisecond)
	rn.S = nil
	res.Add("closes_checked", 1)
	// reopen: contents, GC cycle, contents; then close again and look once more
	if special == "flush-parked" {
		// the two extra puts may or may not be in: adopt what is there for those keys
		s2, err := env.Open()
		if err == nil {
			for w := 0; w < 2; w++ {
				k := u.Keys[w%len(u.Keys)]
				if v, found, _ := s2.Get(append([]byte{}, k.Raw...)); found {
					rn.M.M[string(k.Digest)] = append([]byte{}, v...)
				}
			}
			s2.Close()
		}
	}
	rn.Opt.Extra = nil
	if rn.Open() {
		p := core.Protect(func() {
			rn.Probe("reopened-after-close")
			rn.Exec(len(ops), seq.Op{Kind: "gcp", A: 50})
			rn.Exec(len(ops)+1, seq.Op{Kind: "gci", A: 1})
			rn.Probe("reopened-after-close+gc")
			rn.Exec(len(ops)+2, seq.Op{Kind: "flush"})
			if err := rn.S.Close(); err != nil {
				res.Violate("close-error", "c17-close-error:second", 0, nil, "second store: Close returned %v", err)
			}
			rn.S = nil
		})
		if p != nil {
			res.Violate("panic", "c17-panic-reopen", 0, nil, "reopened store panicked: %v", p)
		}
		afterClose(res, env, rt, what+"/second-store", 5*time.Millisecond)
	}
	rn.Finish()
	res.NonTrivial = gcEvents > 0 || rt.Count("store.flush.after-commit") > 0
	var names []string
	for i, e := range rt.Events() {
		if i >= 200 {
			break
		}
		names = append(names, e.Name)
	}
	res.Hash = core.HashStrings(what, strings.Join(names, ","))
	if c.Index < 2 || res.Verdict == "violated" || (gateHook != "" && c.Index%17 == 0) {
		res.Sample = map[string]any{"case": c.ID(), "family": what, "config": cfg, "gc_interval": gcInt.String(), "ops": opsStrings(ops, 25), "gc_hook_events_before_close": gcEvents}
	}
}

func c17FailingOpen(c run.Ctx, res *core.CaseResult, kind string) {
	r := gen.Rng(c.Seed, propStream("C17fail"), uint64(c.Index))
	cfg := c17Config(r)
	cfg.IndexFileSize, cfg.PrimaryFileSize = 300, 300
	env, err := core.NewEnv(cfg)
	if err != nil {
		res.Verdict = "inconclusive"
		return
	}
	defer env.Cleanup()
	rt := hookrt.New()
	rt.Install()
	defer hookrt.Uninstall()
	u := gen.MakeUniverse(r, cfg.Primary, 4+r.IntN(8))
	rn := seq.NewRunner(env, u, rt, res, seq.Opts{})
	if !rn.Open() {
		return
	}
	ops := seq.GenOps(r, seq.Profile{N: 30 + r.IntN(40), Keys: len(u.Keys), NoHuge: true})
	for i, o := range ops {
		rn.Exec(i, o)
	}
	if err := rn.S.Close(); err != nil {
		res.Violate("close-error", "c17-close-error:setup", 0, nil, "Close: %v", err)
	}
	rn.S = nil
	if res.Verdict == "violated" {
		return
	}
	saved, _ := core.Snapshot(env.Root)
	g0 := len(storeGoroutines())
	bad := cfg
	ctx := context.Background()
	ptype := cfg.Primary
	restore := func() {}
	switch kind {
	case "index-file-size-mismatch":
		bad.IndexFileSize = 777
	case "primary-file-size-mismatch":
		bad.PrimaryFileSize = 777
	case "corrupt-index-header":
		os.WriteFile(env.IndexPath+".info", []byte("{not json"), 0o644)
	case "empty-index-header":
		os.WriteFile(env.IndexPath+".info", []byte{}, 0o644)
	case "corrupt-primary-header":
		os.WriteFile(env.DataPath+".info", []byte("]["), 0o644)
	case "unsupported-primary-type":
		ptype = "no-such-primary"
	case "cancelled-context":
		cctx, cancel := context.WithCancel(context.Background())
		cancel()
		ctx = cctx
	case "interrupted-translation-leftover":
		os.MkdirAll(env.Root+"/i/old_index123", 0o755)
		os.WriteFile(env.Root+"/i/old_index123/sth.index.0", []byte{1, 2, 3}, 0o644)
	case "translation-unreadable-index-file":
		bad.Bits = cfg.Bits + 3
		// make an index file that the bucket table refers to unreadable for the translation
		if b, err := os.ReadFile(env.IndexPath + ".0"); err == nil && len(b) > 8 {
			os.WriteFile(env.IndexPath+".0", b[:len(b)/2], 0o644)
			os.Remove(env.IndexPath + ".buckets")
		}
	case "legacy-index-ends-inside-size-prefix", "legacy-index-ends-inside-record":
		// a legacy-format store whose single index file is torn at its end: the conversion is refused
		ls := legacy.Generate(r, u, cfg.Bits, 20+r.IntN(30))
		writeLegacy := func(torn bool) {
			os.RemoveAll(env.Root)
			os.MkdirAll(filepath.Dir(env.IndexPath), 0o755)
			os.MkdirAll(filepath.Dir(env.DataPath), 0o755)
			t := *ls
			if torn {
				if kind == "legacy-index-ends-inside-size-prefix" {
					t.Index = append(append([]byte{}, ls.Index...), 0x10, 0x00)
				} else {
					t.Index = append(append([]byte{}, ls.Index...), 40, 0, 0, 0, 1, 2, 3)
				}
			}
			t.Write(env.IndexPath, env.DataPath)
		}
		writeLegacy(true)
		restore = func() {
			writeLegacy(false)
			rn.M = wantModel(c10Case{cfg: cfg, u: u, ls: ls})
		}
	case "translation-fails-double-mismatch":
		// bit size AND index file size differ: the translation cannot open the old index
		bad.Bits = cfg.Bits + 3
		bad.IndexFileSize = 777
	case "translation-fails-primary-truncated":
		// bit size differs and the primary data the index refers to is gone: re-inserting fails midway
		bad.Bits = cfg.Bits + 3
		for n := 0; n < 64; n++ {
			if _, err := os.Stat(fmt.Sprintf("%s.%d", env.DataPath, n)); err == nil {
				os.Truncate(fmt.Sprintf("%s.%d", env.DataPath, n), 0)
			}
		}
	case "bits-out-of-range":
		bad.Bits = 40
	case "index-file-size-too-large":
		bad.IndexFileSize = 1<<31 + 5
	case "primary-file-size-too-large":
		bad.PrimaryFileSize = 1<<31 + 5
	}
	var s *store.Store
	var oerr error
	p := core.Protect(func() {
		e2 := *env
		e2.Cfg = bad
		s, oerr = store.OpenStore(ctx, ptype, env.DataPath, env.IndexPath, bad.Immutable, e2.Options()...)
	})
	if p != nil {
		res.Violate("panic", "c17-failing-open-panic:"+kind, 0, nil, "OpenStore panicked for %s: %v", kind, p)
		return
	}
	if oerr == nil {
		// some kinds may legitimately succeed (e.g. a truncated index file is repaired): then it is just a store to close
		res.Add("failing_open_succeeded_"+kind, 1)
		s.Close()
	} else {
		res.Flag("open-refused")
		res.Add("failing_open_refused_"+kind, 1)
		if fds := fdsUnder(env.Root); len(fds) > 0 {
			res.Violate("descriptor-leak-failed-open", "c17-fd-after-failed-open:"+kind, 0, fds, "a failed OpenStore (%s: %v) left %d descriptor(s) open: %v", kind, oerr, len(fds), fds)
		}
		if gs := leakedGoroutines(); len(gs) > g0 {
			res.Violate("goroutine-leak-failed-open", "c17-goroutine-after-failed-open:"+kind, 0, gs, "a failed OpenStore (%s: %v) left %d store goroutine(s) behind, e.g. %s", kind, oerr, len(gs)-g0, firstLines(gs[0], 6))
		}
	}
	// a following correct open must find the contents (restore what the test itself damaged)
	switch kind {
	case "corrupt-index-header", "empty-index-header", "corrupt-primary-header", "interrupted-translation-leftover", "translation-unreadable-index-file", "translation-fails-primary-truncated", "translation-fails-double-mismatch":
		os.RemoveAll(env.Root)
		os.MkdirAll(env.Root, 0o755)
		saved.Materialize(env.Root)
	}
	restore()
	if rn.Open() {
		core.Protect(func() { rn.Probe("open-after-failed-open") })
		rn.S.Close()
		rn.S = nil
		afterClose(res, env, rt, "after-failed-open:"+kind, 2*time.Millisecond)
	}
	res.Hash = core.HashStrings(kind, caseHash(cfg, u, ops))
	res.NonTrivial = res.HasFlag("open-refused")
	if c.Index%7 == 0 || res.Verdict == "violated" {
		res.Sample = map[string]any{"case": c.ID(), "family": "failing-open", "kind": kind, "config": cfg, "open_error": fmt.Sprint(oerr)}
	}
}

func c17Cycles(c run.Ctx, res *core.CaseResult) {
	r := gen.Rng(c.Seed, propStream("C17cyc"), uint64(c.Index))
	cfg := c17Config(r)
	env, err := core.NewEnv(cfg)
	if err != nil {
		res.Verdict = "inconclusive"
		return
	}
	defer env.Cleanup()
	rt := hookrt.New()
	rt.Install()
	defer hookrt.Uninstall()
	u := gen.MakeUniverse(r, cfg.Primary, 8)
	rn := seq.NewRunner(env, u, rt, res, seq.Opts{Extra: []store.Option{store.GCInterval(2 * time.Millisecond), store.SyncInterval(time.Millisecond)}})
	g0 := len(storeGoroutines())
	var vid uint64 = 1
	maxG, maxF := 0, 0
	for cyc := 0; cyc < 200; cyc++ {
		if !rn.Open() {
			return
		}
		rn.S.Start()
		for i := 0; i < 6; i++ {
			rn.Exec(cyc*10+i, seq.Op{Kind: "put", K: r.IntN(len(u.Keys)), VID: vid, VLen: 1 + r.IntN(50)})
			vid++
		}
		if r.IntN(3) == 0 {
			time.Sleep(time.Duration(r.IntN(3000)) * time.Microsecond)
		}
		if err := rn.S.Close(); err != nil {
			res.Violate("close-error", "c17-close-error:cycles", cyc, nil, "cycle %d: Close returned %v", cyc, err)
		}
		rn.S = nil
		if res.Verdict == "violated" {
			return
		}
		if f := len(fdsUnder(env.Root)); f > maxF {
			maxF = f
		}
		if cyc%20 == 19 {
			if g := len(leakedGoroutines()); g > maxG {
				maxG = g
			}
		}
		res.Add("open_close_cycles", 1)
	}
	if maxF > 0 {
		res.Violate("descriptor-accumulation", "c17-fd-accumulation", 0, nil, "descriptors into the store directory remained open after Close during 200 open/close cycles (max %d)", maxF)
	}
	if maxG > g0 {
		res.Violate("goroutine-accumulation", "c17-goroutine-accumulation", 0, nil, "store goroutines accumulated over 200 open/close cycles (%d blocked above baseline %d)", maxG, g0)
	}
	if rn.Open() {
		core.Protect(func() { rn.Probe("after-200-cycles") })
		rn.S.Close()
		rn.S = nil
	}
	afterClose(res, env, rt, "after-cycles", 30*time.Millisecond)
	res.Hash = core.HashStrings("cycles", fmt.Sprint(c.Index))
	res.NonTrivial = true
	res.Sample = map[string]any{"case": c.ID(), "family": "open-close-cycles", "cycles": 200, "config": cfg}
}
