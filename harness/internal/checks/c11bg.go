package checks

import (
	"fmt"
	"sort"
	"time"

	"github.com/ipld/go-storethehash/store"

	"verif/harness/internal/core"
	"verif/harness/internal/fsck"
	"verif/harness/internal/gen"
	"verif/harness/internal/hookrt"
	"verif/harness/internal/run"
	"verif/harness/internal/seq"
)

// C11 through the store's own background collectors. The harness-driven cycles of runC11 call the
// cycle functions directly; the goroutines that call them in production (interval timer, per-cycle
// time-limit context, scan-free skipping) are only exercised here. Both collectors are stepped cycle
// by cycle with gates at their cycle-start points: while both are parked the store is quiescent, the
// harness flushes and inspects the directory, then lets each run exactly one more cycle. Progress is
// therefore still counted in cycles, not in time; a collector that stops cycling is inconclusive.
func runC11Background(c run.Ctx) *core.CaseResult {
	res := &core.CaseResult{ID: c.ID(), Verdict: "held"}
	r := gen.Rng(c.Seed, propStream("C11bg"), uint64(c.Index))
	cfg := gen.Config{Primary: gen.MH, Bits: []uint8{8, 12}[r.IntN(2)],
		IndexFileSize:   []uint32{100, 300, 1024}[r.IntN(3)],
		PrimaryFileSize: []uint32{100, 300, 1000}[r.IntN(3)],
		FileCache:       []int{0, 2, 512}[r.IntN(3)]}
	env, err := core.NewEnv(cfg)
	if err != nil {
		res.Verdict = "inconclusive"
		return res
	}
	defer env.Cleanup()
	rt := hookrt.New()
	rt.Install()
	defer hookrt.Uninstall()
	limit := []time.Duration{0, time.Minute, time.Minute}[r.IntN(3)] // non-zero limits never expire here
	u := gen.MakeUniverse(r, cfg.Primary, 10+r.IntN(30))
	rn := seq.NewRunner(env, u, rt, res, seq.Opts{Extra: []store.Option{store.GCInterval(time.Millisecond), store.GCTimeLimit(limit), store.SyncInterval(time.Hour)}})
	if !rn.Open() {
		return res
	}
	var gates []*hookrt.Gate
	defer func() {
		rt.ClearGates()
		for _, g := range gates {
			g.Open()
		}
		rn.Finish()
	}()
	newGate := func(hook string) *hookrt.Gate {
		g := hookrt.NewGate(hook, 1, 2*time.Minute)
		gates = append(gates, g)
		rt.AddGate(g)
		return g
	}
	inconclusive := func(why string) *core.CaseResult {
		if res.Verdict == "held" {
			res.Verdict = "inconclusive"
			res.Note = why
		}
		return res
	}
	step := 0
	do := func(o seq.Op) {
		rn.Exec(step, o)
		step++
	}
	var vid uint64 = 1
	nfill := 20 + r.IntN(60)
	for i := 0; i < nfill; i++ {
		do(seq.Op{Kind: "put", K: r.IntN(len(u.Keys)), VID: vid, VLen: 1 + r.IntN(90)})
		vid++
		if r.IntN(6) == 0 {
			do(seq.Op{Kind: "flush"})
		}
		if r.IntN(10) == 0 {
			do(seq.Op{Kind: "rm", K: r.IntN(len(u.Keys))})
		}
	}
	do(seq.Op{Kind: "flush"})
	if res.Verdict == "violated" {
		return res
	}
	// let both collectors complete some cycles on their own first
	for i := 0; i < 3000 && (rt.Count("mh.gc.cycle.start") < 3 || rt.Count("index.gc.cycle.start") < 3); i++ {
		time.Sleep(time.Millisecond)
	}
	if rt.Count("mh.gc.cycle.start") < 3 || rt.Count("index.gc.cycle.start") < 3 {
		return inconclusive("background collectors did not run three cycles within 3 s")
	}
	gp, gi := newGate("mh.gc.cycle.start"), newGate("index.gc.cycle.start")
	if !gp.WaitArrived(10*time.Second) || !gi.WaitArrived(10*time.Second) {
		return inconclusive("background collectors did not reach their next cycle within 10 s")
	}
	// both collectors parked before a cycle: quiescent
	layout := func() (*fsck.Layout, *fsck.Resolved) {
		l, err := env.Fsck()
		if err != nil {
			res.Violate("fsck", "c11-fsck-load", step, nil, "fsck load: %v", err)
			return nil, nil
		}
		_, rs := l.Check(liveBuckets(rn.S))
		return l, rs
	}
	l0, r0 := layout()
	if l0 == nil {
		return res
	}
	mp := core.MH(rn.S)
	pmfs := uint64(cfg.PrimaryFileSize)
	keyIdx := map[string]int{}
	for i, k := range u.Keys {
		keyIdx[string(k.Digest)] = i
	}
	byFile := map[uint32][]int{}
	for d, loc := range r0.Content {
		byFile[uint32(loc.Off/pmfs)] = append(byFile[uint32(loc.Off/pmfs)], keyIdx[d])
	}
	curPrim := mp.VerifFileNum()
	scenario := []string{"kill-all-noncurrent", "low-use", "kill-all-keys"}[r.IntN(3)]
	kill := func(k int) {
		if r.IntN(2) == 0 {
			do(seq.Op{Kind: "rm", K: k})
		} else {
			do(seq.Op{Kind: "put", K: k, VID: vid, VLen: 1 + r.IntN(60)})
			vid++
		}
	}
	switch scenario {
	case "kill-all-keys":
		for k := range u.Keys {
			do(seq.Op{Kind: "rm", K: k})
		}
	default:
		for _, f := range l0.PrimFileNums() {
			if f >= curPrim {
				continue
			}
			ks := byFile[f]
			sort.Ints(ks)
			keep := 0
			if scenario == "low-use" {
				keep = 1
			}
			for i, k := range ks {
				if i >= keep {
					kill(k)
				}
			}
		}
	}
	do(seq.Op{Kind: "flush"})
	res.Add("bg_scenario_"+scenario, 1)
	if res.Verdict == "violated" {
		return res
	}
	l1, r1 := layout()
	if l1 == nil {
		return res
	}
	curPrim = mp.VerifFileNum()
	curIdx := rn.S.Index().VerifFileNum()
	const threshold = 85 // the background collector's low-use threshold
	liveIn := map[uint32]int{}
	busyBytes := map[uint32]int64{}
	for _, loc := range r1.Content {
		f := uint32(loc.Off / pmfs)
		liveIn[f]++
		busyBytes[f] += int64(loc.Size)
	}
	var deadPrim, lowUse []uint32
	liveTotal := 0
	for _, f := range l1.PrimFileNums() {
		pf := l1.PrimFiles[f]
		if f >= curPrim || pf.Len == 0 {
			continue
		}
		if liveIn[f] == 0 {
			deadPrim = append(deadPrim, f)
			continue
		}
		var all int64
		for _, rec := range pf.Recs {
			all += int64(rec.Size)
		}
		if free := all - busyBytes[f]; 100*free >= int64(threshold+10)*all {
			lowUse = append(lowUse, f)
			liveTotal += liveIn[f]
		}
	}
	refIdx := map[uint32]bool{}
	imfs := uint64(cfg.IndexFileSize)
	for _, p := range liveBuckets(rn.S) {
		if p != 0 {
			refIdx[uint32((p-4)/imfs)] = true
		}
	}
	var deadIdx []uint32
	for _, f := range l1.IdxFileNums() {
		if f < curIdx && !refIdx[f] && l1.IdxFiles[f].Len > 0 {
			deadIdx = append(deadIdx, f)
		}
	}
	res.Add("bg_dead_primary_files", int64(len(deadPrim)))
	res.Add("bg_lowuse_primary_files", int64(len(lowUse)))
	res.Add("bg_dead_index_files", int64(len(deadIdx)))
	released := func(ds dirState, base string, f uint32) bool {
		sz, ok := ds.files[fmt.Sprintf("%s.%d", base, f)]
		return !ok || sz == 0
	}
	bound := c11B1
	if n := liveTotal + 4; len(lowUse) > 0 && n > bound {
		bound = n
	}
	primAt, idxAt, lowAt := map[uint32]int{}, map[uint32]int{}, map[uint32]int{}
	for i := 1; i <= bound; i++ {
		// exactly one more cycle of each collector
		gpN, giN := newGate("mh.gc.cycle.start"), newGate("index.gc.cycle.start")
		gp.Open()
		gi.Open()
		if !gpN.WaitArrived(10*time.Second) || !giN.WaitArrived(10*time.Second) {
			return inconclusive(fmt.Sprintf("background collectors did not complete cycle %d within 10 s", i))
		}
		gp, gi = gpN, giN
		do(seq.Op{Kind: "flush"})
		if res.Verdict == "violated" {
			return res
		}
		res.Add("bg_stepped_cycles", 1)
		ds := c11Dir(env)
		for _, f := range deadPrim {
			if _, done := primAt[f]; !done && released(ds, "d/sth.data", f) {
				primAt[f] = i
			}
		}
		for _, f := range lowUse {
			if _, done := lowAt[f]; !done && released(ds, "d/sth.data", f) {
				lowAt[f] = i
			}
		}
		for _, f := range deadIdx {
			if _, done := idxAt[f]; !done && released(ds, "i/sth.index", f) {
				idxAt[f] = i
			}
		}
		if i == c11B1 {
			for _, f := range deadPrim {
				if _, ok := primAt[f]; !ok {
					res.Violate("gc-progress", "c11-bg-dead-primary-file-not-released", step, nil, "background collector: non-current primary file %d holds no live record but is neither empty nor unlinked after %d cycles (size %d)", f, c11B1, ds.files[fmt.Sprintf("d/sth.data.%d", f)])
				}
			}
		}
		if i == c11B2 {
			for _, f := range deadIdx {
				if _, ok := idxAt[f]; !ok {
					res.Violate("gc-progress", "c11-bg-dead-index-file-not-released", step, nil, "background collector: non-current index file %d is referenced by no bucket but is neither empty nor unlinked after %d cycles (size %d)", f, c11B2, ds.files[fmt.Sprintf("i/sth.index.%d", f)])
				}
			}
		}
	}
	lFin, rFin := layout()
	for _, f := range lowUse {
		if _, ok := lowAt[f]; ok {
			continue
		}
		still := true
		if lFin != nil {
			if pf, ok := lFin.PrimFiles[f]; !ok || pf.Len == 0 {
				still = false
			} else {
				var all, busy int64
				for _, rec := range pf.Recs {
					all += int64(rec.Size)
				}
				for _, loc := range rFin.Content {
					if uint32(loc.Off/pmfs) == f {
						busy += int64(loc.Size)
					}
				}
				still = all > 0 && 100*(all-busy) >= int64(threshold+10)*all
			}
		}
		if still {
			res.Violate("gc-progress", "c11-bg-lowuse-file-not-drained", step, nil, "background collector: primary file %d with free share >= %d%% was not drained and released within %d cycles", f, threshold+10, bound)
		} else {
			res.Add("bg_lowuse_files_no_longer_lowuse_after_truncation", 1)
		}
	}
	for _, n := range primAt {
		res.Add(fmt.Sprintf("bg_primary_released_after_%d_cycles", n), 1)
	}
	for _, n := range idxAt {
		res.Add(fmt.Sprintf("bg_index_released_after_%d_cycles", n), 1)
	}
	for _, n := range lowAt {
		res.Add(fmt.Sprintf("bg_lowuse_released_after_%d_cycles", minInt(n, 9)), 1)
	}
	rt.ClearGates()
	for _, g := range gates {
		g.Open()
	}
	rn.Probe("after-background-gc-progress")
	res.Add("bg_cases", 1)
	if limit != 0 {
		res.Add("bg_cases_with_cycle_time_limit", 1)
	}
	res.Hash = core.HashStrings("bg", cfg.String(), scenario, u.Desc, fmt.Sprint(nfill, limit))
	res.NonTrivial = len(primAt)+len(idxAt)+len(lowAt) > 0
	if c.Index%64 == 15 || res.Verdict == "violated" {
		res.Sample = map[string]any{"case": c.ID(), "family": "background-collectors-stepped", "config": cfg, "scenario": scenario, "gc_time_limit": limit.String(), "dead_primary": deadPrim, "low_use": lowUse, "dead_index": deadIdx, "bound": bound}
	}
	return res
}
