package checks

import (
	"context"
	"runtime"
	"runtime/debug"
	"sync"
	"time"

	"verif/harness/internal/conc"
	"verif/harness/internal/core"
	"verif/harness/internal/gen"
)

// Gated scenarios around file handles (C14 at the store level, C17's descriptor clause).

// rollPrimary keeps writing until the primary's current file number is at least n.
func (g *gctx) rollPrimary(n uint32, from int) {
	mp := core.MH(g.s)
	if mp == nil {
		return
	}
	if from >= len(g.u.Keys) {
		from = 0 // tiny universe: reuse the first keys
	}
	for i := 0; i < 60 && mp.VerifFileNum() < n; i++ {
		k := from + i%(len(g.u.Keys)-from)
		g.do(0, g.put(k, 50+i%5))
		g.flush()
	}
}

var gatedC14 = []gscen{
	{"G21-reader-holds-cached-handle-while-another-read-of-that-file-fails", func(g *gctx) {
		// keys 0 and 1 share primary file 0, key 1's record is the last one of that file
		if len(g.u.Keys) < 3 {
			g.res.Add("gated_windows_not_applicable_to_universe", 1) // needs a third key to roll the files with
			return
		}
		g.do(0, g.put(0, 30))
		fill := int(g.pl.Cfg.PrimaryFileSize) - (4 + len(g.u.Keys[0].Raw) + 30) - (4 + len(g.u.Keys[1].Raw))
		if fill < 30 {
			fill = 30
		}
		g.do(0, g.put(1, fill)) // fills file 0 up to its limit: the next record starts file 1
		g.flush()
		g.rollPrimary(2, 2)
		if !g.reopen() { // empty pools: reads go to the files
			return
		}
		var tmu sync.Mutex
		truncated0 := false
		g.rt.OnHook(func(name string, v any, hit int64) {
			if name == "mh.gc.reap.before-truncate" {
				if fn, ok := v.(uint32); ok && fn == 0 {
					tmu.Lock()
					truncated0 = true
					tmu.Unlock()
				}
			}
		})
		mp := core.MH(g.s)
		if mp == nil {
			return
		}
		gb := g.gate("store.get.after-lookup", 1)
		rb := g.async(1, conc.COp{Kind: "get", K: 1})
		if !gb.WaitArrived(gT) {
			g.notAttained("reader B did not park")
			gb.Open()
			return
		}
		// supersede the location B holds and let GC cut it off the end of file 0
		g.do(0, g.put(1, 35))
		g.flush()
		mp.GC(context.Background(), 100)
		mp.GC(context.Background(), 100)
		tmu.Lock()
		cut := truncated0
		tmu.Unlock()
		if !cut {
			g.notAttained("the superseded record was not truncated away")
			gb.Open()
			waitRec(rb, gT)
			return
		}
		ga := g.gate("mh.get.after-open", 1)
		ra := g.async(2, conc.COp{Kind: "get", K: 0})
		if !ga.WaitArrived(gT) {
			g.notAttained("reader A did not park holding the handle")
			ga.Open()
			gb.Open()
			waitRec(rb, gT)
			return
		}
		// B's read of the truncated location fails while A holds the same cached handle
		gb.Open()
		waitRec(rb, gT)
		g.res.Flag("window-attained")
		ga.Open()
		waitRec(ra, gT)
		g.do(3, conc.COp{Kind: "get", K: 0})
		g.do(3, conc.COp{Kind: "get", K: 1})
		g.do(3, conc.COp{Kind: "size", K: 0})
	}, func(cfg *gen.Config) {
		cfg.PrimaryFileSize = 300
		cfg.FileCache = []int{1, 2, 512}[int(cfg.Bits)%3]
		cfg.Primary = gen.MH
	}},
}

// checkDescriptorsAfterClose is the descriptor clause of C17 for gated scenarios; the Go
// collector is kept off during the scenario so that a finalizer cannot close a leaked handle.
func (g *gctx) checkDescriptorsAfterClose(prevGC int) func() {
	return func() {
		if fds := fdsUnder(g.env.Root); len(fds) > 0 {
			g.res.Violate("descriptor-open-after-close", "c17-gated-fd-after-close", 0, fds, "%d descriptor(s) into the store's directories are still open after Close returned: %v", len(fds), fds)
		}
		g.res.Add("post_close_descriptor_checks", 1)
		debug.SetGCPercent(prevGC)
	}
}

var gatedC17 = []gscen{
	{"G22-private-handle-from-disabled-cache-released-after-cache-was-enabled", func(g *gctx) {
		g.afterClose = g.checkDescriptorsAfterClose(debug.SetGCPercent(-1))
		g.do(0, g.put(0, 30))
		g.do(0, g.put(1, 30))
		g.flush()
		if !g.reopen() {
			return
		}
		g.s.SetFileCacheSize(0)
		ga := g.gate("mh.get.after-open", 1)
		ra := g.async(1, conc.COp{Kind: "get", K: 0}) // handle opened while caching is off: private to this call
		if !ga.WaitArrived(gT) {
			g.notAttained("reader did not park holding its handle")
			ga.Open()
			return
		}
		g.s.SetFileCacheSize(8)
		g.do(2, conc.COp{Kind: "get", K: 1}) // caches a second handle of the same file
		g.res.Flag("window-attained")
		ga.Open()
		waitRec(ra, gT)
		g.do(2, conc.COp{Kind: "get", K: 0})
	}, func(cfg *gen.Config) { cfg.PrimaryFileSize = 4096; cfg.Primary = gen.MH }},
	{"G23-readers-while-the-file-cache-is-switched-off-and-on", func(g *gctx) {
		g.afterClose = g.checkDescriptorsAfterClose(debug.SetGCPercent(-1))
		for i := range g.u.Keys {
			g.do(0, g.put(i, 20+i))
		}
		g.flush()
		if !g.reopen() {
			return
		}
		var wg sync.WaitGroup
		stop := make(chan struct{})
		for w := 0; w < 6; w++ {
			wg.Add(1)
			go func(w int) {
				defer wg.Done()
				for i := 0; ; i++ {
					select {
					case <-stop:
						return
					default:
					}
					g.do(10+w, conc.COp{Kind: []string{"get", "size", "has"}[i%3], K: (w + i) % len(g.u.Keys)})
					if i >= 150 {
						return
					}
				}
			}(w)
		}
		for i := 0; i < 300; i++ {
			g.s.SetFileCacheSize(0)
			runtime.Gosched()
			g.s.SetFileCacheSize(16)
			if i%16 == 0 {
				time.Sleep(50 * time.Microsecond)
			}
		}
		close(stop)
		wg.Wait()
		g.res.Flag("window-attained")
	}, func(cfg *gen.Config) { cfg.PrimaryFileSize = 300; cfg.IndexFileSize = 100; cfg.Primary = gen.MH }},
}

func init() {
	// every collector x caller window of C06 (G7-G11, G24) is also run under C17's descriptor clause:
	// lookups that have to retry because the collector reclaimed what they had located must give back
	// every handle they borrowed
	for _, sc := range gatedC06 {
		sc := sc
		gatedC17 = append(gatedC17, gscen{sc.name + "+descriptors-after-close", func(g *gctx) {
			g.afterClose = g.checkDescriptorsAfterClose(debug.SetGCPercent(-1))
			sc.run(g)
		}, sc.cfg})
	}
}
