// Package model is the reference map the store is compared against. It knows
// nothing about buckets, files or flushes.
package model

import "bytes"

type Map struct {
	Immutable bool
	M         map[string][]byte // digest -> value
}

func New(immutable bool) *Map { return &Map{Immutable: immutable, M: map[string][]byte{}} }

func (m *Map) Clone() *Map {
	c := New(m.Immutable)
	for k, v := range m.M {
		c.M[k] = v
	}
	return c
}

// Put returns true when the call must fail with the key-exists error.
func (m *Map) Put(d []byte, v []byte) (keyExists bool) {
	old, ok := m.M[string(d)]
	if ok {
		if m.Immutable {
			return true
		}
		if bytes.Equal(old, v) {
			return false
		}
	}
	m.M[string(d)] = append([]byte{}, v...)
	return false
}

func (m *Map) Get(d []byte) ([]byte, bool) {
	v, ok := m.M[string(d)]
	return v, ok
}

func (m *Map) Remove(d []byte) bool {
	_, ok := m.M[string(d)]
	delete(m.M, string(d))
	return ok
}
