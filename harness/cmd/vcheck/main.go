// vcheck is the single harness binary: coordinator, worker and replay modes.
package main

import (
	"flag"
	"fmt"
	"os"
	"strconv"

	_ "verif/harness/internal/checks"
	"verif/harness/internal/run"
)

func main() {
	if len(os.Args) < 2 {
		fmt.Println("usage: vcheck run <ID> --tier t --seed n | worker ... | replay <path> | list")
		os.Exit(2)
	}
	switch os.Args[1] {
	case "list":
		for id := range run.Registry {
			fmt.Println(id)
		}
	case "run":
		fs := flag.NewFlagSet("run", flag.ExitOnError)
		tier := fs.String("tier", "quick", "")
		seed := fs.Int64("seed", 1, "")
		jobs := fs.Int("jobs", 16, "")
		fs.Parse(os.Args[3:])
		if v := os.Getenv("VERIF_JOBS"); v != "" {
			if n, err := strconv.Atoi(v); err == nil {
				*jobs = n
			}
		}
		exe, _ := os.Executable()
		os.Exit(run.Coordinate(exe, os.Args[2], *tier, *seed, *jobs))
	case "worker":
		fs := flag.NewFlagSet("worker", flag.ExitOnError)
		tier := fs.String("tier", "quick", "")
		seed := fs.Int64("seed", 1, "")
		from := fs.Int("from", 0, "")
		step := fs.Int("step", 1, "")
		total := fs.Int("total", 0, "")
		fs.Parse(os.Args[3:])
		os.Exit(run.WorkerMain(os.Args[2], *tier, *seed, *from, *step, *total))
	case "replay":
		os.Exit(run.Replay(os.Args[2]))
	default:
		fmt.Println("unknown mode", os.Args[1])
		os.Exit(2)
	}
}
