#!/usr/bin/env python3
"""Re-runs the quick tier of each seeded change's own check (and, if that misses, the checks that caught it
earlier) against the CURRENT harness and /repo HEAD, and records the outcome as meta.json["final_run"].
   tools/reeval.py [name-substring ...]
Applies each patch to /repo's working tree and always restores it (git checkout -- .)."""
import sys, os, json, glob, subprocess, time

ENV = dict(os.environ, GOFLAGS="-mod=mod", GOPROXY="off", GOLOG_LOG_LEVEL="fatal")
def sh(cmd, cwd=None, timeout=3600):
    try:
        r = subprocess.run(cmd, shell=True, cwd=cwd, env=ENV, capture_output=True, text=True, timeout=timeout)
        return r.returncode, r.stdout + r.stderr
    except subprocess.TimeoutExpired:
        return 124, "TIMEOUT"

def run_check(c):
    t0 = time.time()
    rc, o = sh(f"./check {c} quick", cwd="/verif", timeout=3000)
    caught = rc == 1 and f"VIOLATION property={c}" in o
    first = next((l.strip()[:220] for l in o.splitlines() if l.startswith("  [")), "")
    return {"check": c + " quick", "caught": caught, "exit": rc, "wall_s": round(time.time() - t0), "first_violation": first,
            "summary": o.strip().splitlines()[-1][:200] if o.strip() else ""}

def main():
    subs = sys.argv[1:]
    head = sh("git -C /repo rev-parse --short HEAD")[1].strip()
    vhead = sh("git -C /verif rev-parse --short HEAD")[1].strip()
    if sh("git -C /repo status --porcelain")[1].strip():
        print("REFUSING: /repo working tree is not clean"); return 2
    log = open("/verif/SEEDED_FINAL.log", "a")
    for d in sorted(glob.glob("/verif/seeded/C*")):
        name = os.path.basename(d)
        if subs and not any(s in name for s in subs):
            continue
        mp = os.path.join(d, "meta.json")
        m = json.load(open(mp))
        patch = os.path.join(d, m.get("patch_to_apply", "patch.diff"))
        rc, o = sh(f"git -C /repo apply --check {patch}")
        if rc != 0:
            m["final_run"] = {"repo_head": head, "verif_head": vhead, "applies": False, "note": "patch no longer applies to /repo HEAD (the function was rewritten by a later fix: commit)"}
            json.dump(m, open(mp, "w"), indent=1)
            print(name, "does not apply"); log.write(f"{name}: does not apply to {head}\n"); log.flush()
            continue
        runs = []
        try:
            sh(f"git -C /repo apply {patch}")
            own = m.get("property", name.split("-")[0])
            r = run_check(own); runs.append(r)
            if not r["caught"]:
                for k in m.get("caught_by", []):
                    c = k.split()[0]
                    if c != own:
                        runs.append(run_check(c))
        finally:
            sh("git -C /repo checkout -- .")
            sh("rm -rf /verif/replays")
        m["final_run"] = {"repo_head": head, "verif_head": vhead, "applies": True, "runs": runs,
                          "caught_by_own_check": runs[0]["caught"], "caught": any(r["caught"] for r in runs)}
        json.dump(m, open(mp, "w"), indent=1)
        line = f"{name}: " + " / ".join(f"{r['check']}: {'CAUGHT' if r['caught'] else 'missed'} ({r['wall_s']}s)" for r in runs)
        print(line); log.write(line + "\n"); log.flush()
    return 0

sys.exit(main())
