#!/usr/bin/env python3
"""Confirms a seeded change produced by a sub-agent and runs the checks against it.

  tools/seedeval.py <out-dir> <name> <check-id> [more check ids]     e.g. /tmp/seed/out-C05/a C05-a C05

1. in a scratch worktree of /repo: suite passes with the patch; demo fails with it, passes without
2. in /repo itself: git apply, ./check <id> quick (thorough if missed and THOROUGH=1), git checkout -- .
3. on success copies patch, demo, notes + meta.json to /verif/seeded/<name>/
"""
import sys, os, re, subprocess, json, glob, shutil, time

ENV = dict(os.environ, GOFLAGS="-mod=mod", GOPROXY="off", GOLOG_LOG_LEVEL="fatal")

def sh(cmd, cwd=None, timeout=3600):
    try:
        r = subprocess.run(cmd, shell=True, cwd=cwd, env=ENV, capture_output=True, text=True, timeout=timeout)
        return r.returncode, r.stdout + r.stderr
    except subprocess.TimeoutExpired:
        return 124, "TIMEOUT"

def demo_target(path):
    src = open(path).read()
    pkg = re.search(r"^package (\w+)", src, re.M).group(1)
    m = re.search(r"(?:intended path|Intended path|path)[:\s]+`?([\w./-]+_test\.go)`?", src[:1500])
    rel = None
    if m:
        rel = m.group(1)
        rel = re.sub(r"^.*?/wt-C\d\d/", "", rel)
    tests = re.findall(r"^func (Test\w+)\(", src, re.M)
    return pkg, rel, tests

def main():
    out, name = sys.argv[1], sys.argv[2]
    checks = sys.argv[3:]
    patch = os.path.join(out, "patch.diff")
    demos = [f for f in glob.glob(os.path.join(out, "*_test.go"))]
    meta = {"name": name, "source_dir": out, "checks_run": {}, "confirmed": {}}
    wt = "/tmp/seed/verify-" + name
    os.makedirs("/tmp/seed", exist_ok=True)
    marker = f"/tmp/seed/confirmed-{name}.json"
    if os.environ.get("SKIP_CONFIRM") and os.path.exists(marker):
        meta = json.load(open(marker))
        return run_checks(meta, name, checks, patch, demos, out)
    sh(f"git -C /repo worktree remove --force {wt}")
    rc, o = sh(f"git -C /repo worktree add -q --detach {wt} HEAD")
    if rc != 0:
        print("cannot create worktree", o); return 2
    try:
        rc, o = sh(f"git apply --check {patch}", cwd=wt)
        if rc != 0:
            print(name, "PATCH DOES NOT APPLY:", o[:300]); meta["confirmed"]["applies"] = False; return 1
        # place demos
        placed = []
        for d in demos:
            pkg, rel, tests = demo_target(d)
            if not rel:
                # guess from package name
                guess = {"store_test": "store", "store": "store", "index": "store/index", "index_test": "store/index", "mhprimary": "store/primary/multihash", "mhprimary_test": "store/primary/multihash",
                         "freelist": "store/freelist", "freelist_test": "store/freelist", "filecache": "store/filecache", "filecache_test": "store/filecache", "storethehash": ".", "storethehash_test": ".",
                         "cidprimary": "store/primary/cid", "cidprimary_test": "store/primary/cid"}.get(pkg)
                rel = os.path.join(guess, os.path.basename(d)) if guess else None
            if not rel:
                print(name, "cannot place demo", d); return 1
            placed.append((d, rel, tests))
        def run_demos():
            res = []
            for d, rel, tests in placed:
                dst = os.path.join(wt, rel)
                os.makedirs(os.path.dirname(dst), exist_ok=True)
                shutil.copy(d, dst)
                pkgdir = "./" + os.path.dirname(rel) if os.path.dirname(rel) else "."
                rx = "^(" + "|".join(tests) + ")$"
                flags = "-race" if (name.startswith("C16") or os.environ.get("DEMO_RACE")) else ""
                rc, o = sh(f"go test {flags} -vet=off -count=1 -timeout 20m -run '{rx}' {pkgdir}/", cwd=wt, timeout=1500)
                res.append((rc, o[-600:]))
            return res
        def rm_demos():
            for d, rel, tests in placed:
                try: os.remove(os.path.join(wt, rel))
                except FileNotFoundError: pass
        clean = run_demos()
        meta["confirmed"]["demo_passes_without_change"] = all(rc == 0 for rc, _ in clean)
        rm_demos()
        sh(f"git apply {patch}", cwd=wt)
        rc, o = sh("go build ./... && go test -vet=off -count=1 -timeout 25m ./...", cwd=wt, timeout=2400)
        meta["confirmed"]["suite_passes_with_change"] = rc == 0
        if rc != 0:
            meta["suite_output_tail"] = o[-800:]
        changed = run_demos()
        meta["confirmed"]["demo_fails_with_change"] = all(rc != 0 for rc, _ in changed) and len(changed) > 0
        meta["demo_failure_tail"] = changed[0][1][-400:] if changed else ""
        rm_demos()
    finally:
        sh(f"git -C /repo worktree remove --force {wt}")
    ok = all(meta["confirmed"].get(k) for k in ("demo_passes_without_change", "suite_passes_with_change", "demo_fails_with_change"))
    print(name, "confirmed:", meta["confirmed"])
    if not ok:
        json.dump(meta, open(f"/tmp/seed/rejected-{name}.json", "w"), indent=1)
        return 1
    json.dump(meta, open(marker, "w"), indent=1)
    if os.environ.get("CONFIRM_ONLY"):
        return 0
    return run_checks(meta, name, checks, patch, demos, out)

def run_checks(meta, name, checks, patch, demos, out):
    # run the checks on /repo itself
    rc, o = sh("git -C /repo status --porcelain")
    if o.strip():
        print("REFUSING: /repo working tree is not clean"); return 2
    try:
        rc, o = sh(f"git -C /repo apply {patch}")
        if rc != 0:
            print("cannot apply to /repo", o); return 2
        for c in checks:
            t0 = time.time()
            rc, o = sh(f"./check {c} quick", cwd="/verif", timeout=3000)
            caught = rc == 1 and f"VIOLATION property={c}" in o
            first = next((l.strip()[:220] for l in o.splitlines() if l.startswith("  [")), "")
            meta["checks_run"][c + " quick"] = {"caught": caught, "exit": rc, "wall_s": round(time.time() - t0), "first_violation": first, "summary": o.strip().splitlines()[-1][:200] if o.strip() else ""}
            print(f"  {c} quick: {'CAUGHT' if caught else 'missed'} rc={rc} {time.time()-t0:.0f}s {first[:150]}")
            if not caught and os.environ.get("THOROUGH"):
                t0 = time.time()
                rc, o = sh(f"./check {c} thorough", cwd="/verif", timeout=7200)
                caught = rc == 1 and f"VIOLATION property={c}" in o
                first = next((l.strip()[:220] for l in o.splitlines() if l.startswith("  [")), "")
                meta["checks_run"][c + " thorough"] = {"caught": caught, "exit": rc, "wall_s": round(time.time() - t0), "first_violation": first}
                print(f"  {c} thorough: {'CAUGHT' if caught else 'missed'} rc={rc} {time.time()-t0:.0f}s {first[:150]}")
    finally:
        sh("git -C /repo checkout -- .")
        sh("rm -rf /verif/replays")
    dst = f"/verif/seeded/{name}"
    os.makedirs(dst, exist_ok=True)
    shutil.copy(patch, dst)
    for d in demos:
        shutil.copy(d, dst)
    if os.path.exists(os.path.join(out, "notes.md")):
        shutil.copy(os.path.join(out, "notes.md"), dst)
    json.dump(meta, open(os.path.join(dst, "meta.json"), "w"), indent=1)
    return 0

sys.exit(main())
