#!/usr/bin/env python3
"""Hand-written mutation campaign (DESIGN section 7): applies one-edit mutants to /repo's working
tree, runs the targeted check(s), and always restores the tree (git checkout).  usage:
   tools/mutants.py [name-substring ...]     results appended to /verif/MUTATION.log"""
import subprocess, sys, time, os

R = "/repo/"
M = [
 # name, file, old, new, checks
 ("C01-trim-off-by-one", "store/index/index.go", "			keyTrimPos := min(minPrefix, len(indexKey)-1)\n\n			trimmedIndexKey := indexKey[:keyTrimPos+1]", "			keyTrimPos := min(minPrefix, len(indexKey)-1)\n\n			trimmedIndexKey := indexKey[:max(keyTrimPos, 1)]", ["C01", "C08"]),
 ("C01-get-first-match", "store/index/recordlist.go", "		if bytes.HasPrefix(key, record.Key) {\n			matched = true\n			blk = record.Block\n		} else", "		if bytes.HasPrefix(key, record.Key) {\n			if !matched {\n				blk = record.Block\n			}\n			matched = true\n		} else", ["C01", "C08"]),
 ("C01-getsize-indexkey-len", "store/store.go", "	return blk.Size - types.Size(len(key)), true, nil", "	return blk.Size - types.Size(len(indexKey)), true, nil", ["C01", "C15"]),
 ("C01-mhput-roll-gt", "store/primary/multihash/multihash.go", "	if cp.recPos >= types.Position(cp.maxFileSize) {", "	if cp.recPos > types.Position(cp.maxFileSize) {", ["C01"]),
 ("C01-skip-curpool", "store/index/index.go", "	data, ok = idx.curPool[bucket]\n	if ok {\n		return data, true\n	}\n	return nil, false", "	return nil, false", ["C01", "C05"]),
 ("C02-rescan-from-zero", "store/index/index.go", "			lastIndexNum, err = scanIndex(ctx, path, header.FirstFile, buckets, maxFileSize)", "			lastIndexNum, err = scanIndex(ctx, path, 0, buckets, maxFileSize)", ["C02"]),
 ("C02-rescan-keeps-deleted", "store/index/index.go", "			// Record is deleted, so skip.\n			pos += int64(size ^ deletedBit)\n			continue", "			// Record is deleted, so skip.\n			size ^= deletedBit", ["C02"]),
 ("C02-snapshot-not-removed", "store/index/index.go", "		if e = os.Remove(bucketsFileName); e != nil {\n			log.Error(\"Error removing saved buckets file\", \"err\", err)\n		}", "		_ = bucketsFileName", ["C02", "C03"]),
 ("C03-commit-index-first", "store/store.go", "	primaryWork, err := s.index.Primary.Flush()\n	if err != nil {\n		return 0, err\n	}\n	vhook.At(\"store.commit.after-primary\")\n	indexWork, err := s.index.Flush()\n	if err != nil {\n		return 0, err\n	}", "	indexWork, err := s.index.Flush()\n	if err != nil {\n		return 0, err\n	}\n	vhook.At(\"store.commit.after-primary\")\n	primaryWork, err := s.index.Primary.Flush()\n	if err != nil {\n		return 0, err\n	}", ["C03"]),
 ("C03-buckets-before-write", "store/index/index.go", "		blks = append(blks, bucketBlock{bucket, blk})\n		work += newWork\n	}", "		blks = append(blks, bucketBlock{bucket, blk})\n		work += newWork\n		idx.bucketLk.Lock()\n		idx.buckets.Put(bucket, blk.Offset)\n		idx.bucketLk.Unlock()\n	}", ["C03", "C06"]),
 ("C03-gc-remove-before-header", "store/primary/multihash/gc.go", "			header.FirstFile++\n			vhook.At(\"mh.gc.before-header\")\n			if err = writeHeader(gc.primary.headerPath, header); err != nil {\n				return 0, fmt.Errorf(\"cannot write header: %w\", err)\n			}\n			vhook.At(\"mh.gc.before-remove\")\n			if err = os.Remove(filePath); err != nil {\n				return 0, fmt.Errorf(\"cannot remove primary file %s: %w\", filePath, err)\n			}", "			header.FirstFile++\n			vhook.At(\"mh.gc.before-remove\")\n			if err = os.Remove(filePath); err != nil {\n				return 0, fmt.Errorf(\"cannot remove primary file %s: %w\", filePath, err)\n			}\n			vhook.At(\"mh.gc.before-header\")\n			if err = writeHeader(gc.primary.headerPath, header); err != nil {\n				return 0, fmt.Errorf(\"cannot write header: %w\", err)\n			}", ["C03"]),
 ("C03-no-torn-tail-truncate", "store/index/index.go", "				e := os.Truncate(indexPath, pos-sizePrefixSize)\n				if e != nil {\n					log.Errorw(\"Error truncating file\", \"err\", e, \"file\", indexPath)\n				}", "				_ = pos", ["C03"]),
 ("C04-busy-filenum-only", "store/index/gc.go", "	if fileNum == fileNumInBucket && localPos == int64(localPosInBucket) {", "	if fileNum == fileNumInBucket && localPos <= int64(localPosInBucket) {", ["C04", "C11"]),
 ("C04-truncate-at-busy", "store/primary/multihash/gc.go", "		if err = file.Truncate(freeAt); err != nil {\n			return false, err\n		}\n		gc.reclaimed", "		if err = file.Truncate(max64(busyAt, 0)); err != nil {\n			return false, err\n		}\n		gc.reclaimed", ["C04"]),
 ("C04-relocate-frees-new", "store/primary/multihash/gc.go", "			blk := types.Block{Size: types.Size(busySize), Offset: types.Position(offset)}", "			blk := types.Block{Size: fileOffset.Size, Offset: fileOffset.Offset}\n			_ = offset", ["C04", "C13"]),
 ("C04-delete-ignores-size", "store/primary/multihash/gc.go", "		if types.Size(recSize) != freeRec.Size {", "		if false && types.Size(recSize) != freeRec.Size {", ["C04", "C13"]),
 ("C05-no-key-lock", "store/store.go", "	lk := &s.keyLks[h%keyLockStripes]\n	lk.Lock()\n	locked := true", "	lk := &s.keyLks[h%keyLockStripes]\n	locked := false", ["C05"]),
 ("C05-index-update-no-lock", "store/index/index.go", "	indexKey := stripBucketPrefix(key, idx.sizeBits)\n\n	idx.bucketLk.Lock()\n	defer idx.bucketLk.Unlock()\n	records, err := idx.getRecordsFromBucket(bucket)\n	if err != nil {\n		return err\n	}\n\n	var newData []byte", "	indexKey := stripBucketPrefix(key, idx.sizeBits)\n\n	records, err := idx.getRecordsFromBucket(bucket)\n	if err != nil {\n		return err\n	}\n	idx.bucketLk.Lock()\n	defer idx.bucketLk.Unlock()\n\n	var newData []byte", ["C05", "C16"]),
 ("C06-no-stale-retry", "store/store.go", "const maxStaleLookups = 8", "const maxStaleLookups = 0", ["C06"]),
 ("C06-index-get-no-retry", "store/index/index.go", "const maxStaleReads = 8", "const maxStaleReads = 0", ["C06"]),
 ("C06-gc-update-no-keylock", "store/store.go", "	unlockKey := s.lockKey(indexKey)\n	defer unlockKey()\n	return s.index.UpdateIfAt(indexKey, prevOffset, location)", "	return s.index.UpdateIfAt(indexKey, prevOffset, location)", ["C13", "C06"]),
 ("C06-unconditional-relocation", "store/index/index.go", "	if r.Block.Offset != prevOffset {", "	if false && r.Block.Offset != prevOffset {", ["C06", "C04"]),
 ("C08-findkeypos-ge", "store/index/recordlist.go", "		if bytes.Compare(record.Key, key) == 1 {\n			pos = record.Pos\n			return\n		}", "		if bytes.Compare(record.Key, key) >= 0 {\n			pos = record.Pos\n			return\n		}", ["C08", "C01"]),
 ("C08-remove-nextpos", "store/index/index.go", "	newData := records.PutKeys([]KeyPositionPair{}, r.Pos, r.NextPos())\n	// NOTE: We are removing", "	newData := records.PutKeys([]KeyPositionPair{}, r.Pos, min(r.NextPos()+FileOffsetBytes+FileSizeBytes+KeySizeBytes+1, records.Len()))\n	// NOTE: We are removing", ["C08", "C01"]),
 ("C09-no-interrupt-check", "store/store.go", "		if len(files) != 0 {\n			return fmt.Errorf(\"index translation was interrupted", "		if false && len(files) != 0 {\n			return fmt.Errorf(\"index translation was interrupted", ["C09"]),
 ("C09-wrong-error-type", "store/index/index.go", "			return nil, types.ErrIndexWrongFileSize{header.MaxFileSize, maxFileSize}", "			return nil, fmt.Errorf(\"index file size limit is %d, expected %d\", header.MaxFileSize, maxFileSize)", ["C09"]),
 ("C10-remap-le", "store/primary/multihash/upgrade.go", "		if newPos < size {", "		if newPos <= size {", ["C10"]),
 ("C10-resume-no-rename", "store/index/index.go", "			if _, err = os.Stat(tmpName); err == nil {\n				if err = os.Rename(tmpName, fileName); err != nil {", "			if _, err = os.Stat(tmpName); false && err == nil {\n				if err = os.Rename(tmpName, fileName); err != nil {", ["C10"]),
 ("C11-visited-never-cleared", "store/primary/multihash/gc.go", "	for fileNum := range affectedSet {\n		delete(gc.visited, fileNum)\n	}", "	_ = affectedSet", ["C11"]),
 ("C11-no-relocation", "store/primary/multihash/gc.go", "	if 100*totalFree >= lowUsePercent*(totalFree+totalBusy) {", "	if 100*totalFree > 100*lowUsePercent*(totalFree+totalBusy) {", ["C11"]),
 ("C12-no-notice-on-nowork", "store/store.go", "		s.rateLk.Lock()\n		if s.flushNotice != nil {\n			close(s.flushNotice)\n			s.flushNotice = nil\n		}\n		s.rateLk.Unlock()\n		return nil\n	}\n", "		return nil\n	}\n", ["C12"]),
 ("C12-signal-before-register", "store/store.go", "		// Get a channel that broadcasts next flush completion.\n		s.rateLk.Lock()\n		if s.flushNotice == nil {\n			s.flushNotice = make(chan struct{})\n		}\n		flushNotice := s.flushNotice\n		s.rateLk.Unlock()", "		// Get a channel that broadcasts next flush completion.\n		s.rateLk.Lock()\n		s.flushNotice = make(chan struct{})\n		flushNotice := s.flushNotice\n		s.rateLk.Unlock()", ["C12"]),
 ("C13-remove-no-free", "store/store.go", "	if removed {\n		// Mark slot in freelist\n		err = s.freelist.Put(offset)\n		if err != nil {\n			return false, err\n		}\n	}", "	_ = removed", ["C13"]),
 ("C13-double-free-on-update", "store/store.go", "		if err = s.freelist.Put(prevOffset); err != nil {\n			return err\n		}", "		if err = s.freelist.Put(prevOffset); err != nil {\n			return err\n		}\n		if len(value) == 0 {\n			s.freelist.Put(prevOffset)\n		}", ["C13"]),
 ("C14-close-by-name", "store/filecache/filecache.go", "	if elem, ok := c.cache[name]; ok && elem.Value.(*entry).file == file {", "	if elem, ok := c.cache[name]; ok {", ["C14"]),
 ("C14-clear-forgets-referenced", "store/filecache/filecache.go", "	for _, elem := range c.cache {\n		c.removeElement(elem)\n	}\n	c.ll = nil\n	c.cache = nil\n}\n\n// Remove removes", "	for _, elem := range c.cache {\n		if ent := elem.Value.(*entry); ent.refs == 0 {\n			ent.file.Close()\n		}\n	}\n	c.ll = nil\n	c.cache = nil\n}\n\n// Remove removes", ["C14"]),
 ("C15-putmany-stops-at-duplicate", "storethehash.go", "		if err != nil && err != types.ErrKeyExists {\n			return err\n		}", "		if err == types.ErrKeyExists {\n			return nil\n		}\n		if err != nil {\n			return err\n		}", ["C15"]),
 ("C15-has-no-ctx", "storethehash.go", "func (bs *HashedBlockstore) Has(ctx context.Context, c cid.Cid) (bool, error) {\n	if ctx.Err() != nil {\n		return false, ctx.Err()\n	}", "func (bs *HashedBlockstore) Has(ctx context.Context, c cid.Cid) (bool, error) {", ["C15"]),
 ("C16-storagesize-no-lock", "store/freelist/freelist.go", "	fl.flushLock.Lock()\n	defer fl.flushLock.Unlock()\n\n	fi, err := fl.file.Stat()", "	fi, err := fl.file.Stat()", ["C16"]),
 ("C16-outstanding-no-lock", "store/index/index.go", "func (i *Index) OutstandingWork() types.Work {\n	i.bucketLk.RLock()\n	defer i.bucketLk.RUnlock()\n	return i.outstandingWork", "func (i *Index) OutstandingWork() types.Work {\n	return i.outstandingWork", ["C16"]),
 ("C17-close-index-first", "store/store.go", "	err := s.index.Primary.Close()\n	if err != nil {\n		cerr = err\n	}\n	vhook.At(\"store.close.after-primary\")\n	if err = s.index.Close(); err != nil {\n		cerr = err\n	}", "	_, err := s.index.Primary.Flush()\n	if err = s.index.Close(); err != nil {\n		cerr = err\n	}\n	vhook.At(\"store.close.after-primary\")\n	if err = s.index.Primary.Close(); err != nil {\n		cerr = err\n	}", ["C17", "C06"]),
 ("C17-index-gc-not-awaited", "store/index/index.go", "			close(idx.gcStop)\n			<-idx.gcDone\n			idx.gcStop = nil", "			close(idx.gcStop)\n			idx.gcStop = nil", ["C17"]),
 ("C17-failed-open-leaks-primary", "store/store.go", "	if err != nil {\n		primary.Close()\n		freeList.Close()\n		return nil, err\n	}", "	if err != nil {\n		freeList.Close()\n		return nil, err\n	}", ["C17"]),
 ("C07-free-before-update", "store/store.go", "		if err = s.index.Update(indexKey, fileOffset); err != nil {\n			return err\n		}\n		vhook.At(\"store.put.after-update\")\n		// Add outdated data in primary storage to freelist\n		if err = s.freelist.Put(prevOffset); err != nil {\n			return err\n		}", "		// Add outdated data in primary storage to freelist\n		if err = s.freelist.Put(fileOffset); err != nil {\n			return err\n		}\n		vhook.At(\"store.put.after-update\")\n		if err = s.index.Update(indexKey, fileOffset); err != nil {\n			return err\n		}", ["C07", "C13"]),
]

def sh(cmd, **kw):
    return subprocess.run(cmd, shell=True, capture_output=True, text=True, **kw)

def main():
    sel = sys.argv[1:]
    env = dict(os.environ, GOFLAGS="-mod=mod", GOPROXY="off")
    out = open("/verif/MUTATION.log", "a")
    for name, f, old, new, checks in M:
        if sel and not any(s in name for s in sel):
            continue
        src = open(R + f).read()
        if src.count(old) != 1:
            print(f"{name}: ANCHOR NOT FOUND ({src.count(old)})"); continue
        open(R + f, "w").write(src.replace(old, new))
        try:
            extra = ""
            if "max64" in new:
                open(R + f, "a").write("\nfunc max64(a, b int64) int64 {\n\tif a > b {\n\t\treturn a\n\t}\n\treturn b\n}\n")
            b = sh("cd /repo && go build ./... && go build -tags verif ./...", env=env)
            if b.returncode != 0:
                print(f"{name}: does not compile: {b.stderr[:300]}"); continue
            res = []
            for c in checks:
                t0 = time.time()
                r = sh(f"cd /verif && ./check {c} quick", env=env)
                caught = r.returncode == 1 and "VIOLATION property=" + c in r.stdout
                first = ""
                for ln in r.stdout.splitlines():
                    if ln.startswith("  ["):
                        first = ln.strip()[:160]; break
                res.append((c, "CAUGHT" if caught else f"missed(rc={r.returncode})", f"{time.time()-t0:.0f}s", first))
            line = f"{name}: " + " | ".join(f"{c} {v} {t} {fi}" for c, v, t, fi in res)
            print(line); out.write(line + "\n"); out.flush()
        finally:
            sh("cd /repo && git checkout -- .")
    out.close()

main()
