#!/usr/bin/env python3
"""Insert one-line vhook calls into /repo sources (used once to create the hook commits).

Spec lines:  file | anchor text (exact, stripped match of a line) | occurrence (1-based) | before/after | hook call
The inserted line copies the indentation of the anchor line (or `indent+` adds one tab).
"""
import sys, re, collections

def main(specfile, root):
    edits = collections.defaultdict(list)
    for ln in open(specfile):
        ln = ln.rstrip("\n")
        if not ln.strip() or ln.startswith("#"):
            continue
        parts = [p.strip() for p in ln.split(" | ")]
        if len(parts) != 5:
            sys.exit("bad spec line: " + ln)
        f, anchor, occ, where, call = parts
        edits[f].append((anchor, int(occ), where, call))
    for f, lst in edits.items():
        path = root + "/" + f
        lines = open(path).read().split("\n")
        inserts = []  # (index, text)
        for anchor, occ, where, call in lst:
            idxs = [i for i, l in enumerate(lines) if l.strip() == anchor]
            if len(idxs) < occ:
                sys.exit("anchor not found (%d/%d): %s :: %s" % (len(idxs), occ, f, anchor))
            i = idxs[occ - 1]
            indent = re.match(r"\s*", lines[i]).group(0)
            w = where
            if w.endswith("+"):
                indent += "\t"
                w = w[:-1]
            if w.endswith("-"):
                indent = indent[:-1]
                w = w[:-1]
            at = i if w == "before" else i + 1
            inserts.append((at, indent + call))
        # stable: apply from the bottom
        for at, text in sorted(inserts, key=lambda x: -x[0]):
            lines.insert(at, text)
        src = "\n".join(lines)
        imp = '"github.com/ipld/go-storethehash/store/vhook"'
        if imp not in src:
            # add import after the types import or last storethehash import
            m = list(re.finditer(r'^\t"github.com/ipld/go-storethehash/store/[a-z/]+"$', src, re.M))
            m2 = list(re.finditer(r'^\t[a-z]* ?"github.com/ipld/go-storethehash/store/[a-z/]+"$', src, re.M))
            mm = (m2 or m)
            if mm:
                pos = mm[-1].end()
                src = src[:pos] + "\n\t" + imp + src[pos:]
            else:
                # append to import block
                k = src.index("import (") + len("import (")
                end = src.index("\n)", k)
                src = src[:end] + "\n\n\t" + imp + src[end:]
        open(path, "w").write(src)
        print("patched", f, len(lst))

if __name__ == "__main__":
    main(sys.argv[1], sys.argv[2])
