#!/usr/bin/env python3
"""Adds the descriptive fields to /verif/seeded/*/meta.json (property, round, what the change needs to
manifest - taken from the sub-agent's notes.md -, what was run, files, whether the patch applies to /repo HEAD)."""
import json, glob, os, re, subprocess

HEAD = subprocess.run("git -C /repo rev-parse --short HEAD", shell=True, capture_output=True, text=True).stdout.strip()
ROUND = {"a": 1, "b": 1, "c": 2, "d": 2, "e": 3, "f": 3, "g": 4, "h": 4, "i": 5, "j": 5}
RUN = ("tools/seedeval.py: (1) scratch worktree of /repo HEAD: existing suite `go test -vet=off -count=1 ./...` with the patch applied; "
       "the demonstration test alone with the patch (must fail) and without it (must pass); (2) on /repo itself: `git apply patch.diff`, "
       "`./check <ID> quick` for the listed checks, `git checkout -- .`")

def section(notes, words):
    # first markdown section (or paragraph) whose heading/first line mentions one of the words
    parts = re.split(r"\n(?=#+ |\*\*)", notes)
    for p in parts:
        head = p.strip().split("\n", 1)[0].lower()
        if any(w in head for w in words):
            return p.strip()[:1500]
    for para in notes.split("\n\n"):
        if any(w in para.lower() for w in words):
            return para.strip()[:1500]
    return ""

for d in sorted(glob.glob("/verif/seeded/C*")):
    mp = os.path.join(d, "meta.json")
    if not os.path.exists(mp):
        continue
    m = json.load(open(mp))
    name = os.path.basename(d)
    m["property"] = name.split("-")[0]
    m["round"] = ROUND.get(name.split("-")[1][0], 0)
    notes = ""
    if os.path.exists(os.path.join(d, "notes.md")):
        notes = open(os.path.join(d, "notes.md")).read()
    if not m.get("needs_to_manifest"):
        m["needs_to_manifest"] = section(notes, ["needs", "manifest", "trigger", "condition"])
    if not m.get("breaks"):
        m["breaks"] = section(notes, ["break", "clause", "violat"])
    m["what_was_run"] = RUN
    m["files"] = sorted(os.listdir(d))
    for k in [k for k in m if k.startswith("applies_to_repo_head_")]:
        del m[k]
    patch = os.path.join(d, "patch.adapted.diff") if os.path.exists(os.path.join(d, "patch.adapted.diff")) else os.path.join(d, "patch.diff")
    rc = subprocess.run(f"git -C /repo apply --check {patch}", shell=True, capture_output=True).returncode
    m["applies_to_repo_head_" + HEAD] = (rc == 0)
    m["patch_to_apply"] = os.path.basename(patch)
    own = [k for k, v in m.get("checks_run", {}).items() if k.startswith(m["property"] + " ")]
    m["caught_by_own_check_quick"] = any(m["checks_run"][k].get("caught") for k in own)
    m["caught_by"] = sorted(k for k, v in m.get("checks_run", {}).items() if v.get("caught"))
    json.dump(m, open(mp, "w"), indent=1)
print("enriched", len(glob.glob('/verif/seeded/C*')))
