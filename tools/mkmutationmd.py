#!/usr/bin/env python3
"""Writes /verif/MUTATION.md from /verif/seeded/*/meta.json (+ notes) and /verif/MUTATION.log."""
import json, glob, os, re
rows=[]
for d in sorted(glob.glob('/verif/seeded/*/')):
    m=json.load(open(d+'meta.json'))
    name=m['name']
    patch=open(d+'patch.diff').read()
    files=sorted(set(re.findall(r'^\+\+\+ b/(.*)$',patch,re.M)))
    funcs=sorted(set(f.strip()[:60] for f in re.findall(r'^@@.*@@ (.*)$',patch,re.M)))
    needs=m.get('needs','')
    caught=[]
    for k,v in m['checks_run'].items():
        caught.append("%s: %s (%ss)"%(k,'caught' if v['caught'] else 'missed',v.get('wall_s','?')))
    first=next((v['first_violation'] for v in m['checks_run'].values() if v['caught']),'')
    fr=m.get('final_run')
    if not fr:
        final='(not re-run)'
    elif not fr.get('applies'):
        final='patch no longer applies to /repo HEAD'
    else:
        final=" / ".join("%s: %s"%(r['check'],'caught' if r['caught'] else 'missed') for r in fr['runs'])
        ff=next((r['first_violation'] for r in fr['runs'] if r['caught']),'')
        if ff: first=ff
    rows.append((name,str(m.get('round','')),", ".join(files),"; ".join(funcs)[:90]," / ".join(caught),final,first[:150].replace('|','/')))
out=["# Mutation / seeded-change results","",
"Two sources: (1) changes seeded by independent sub-agents that saw only the property text and a scratch checkout of ipld/go-storethehash (`/verif/seeded/<id>/`: patch.diff, demonstration test, notes.md, meta.json); every one was confirmed here in a scratch worktree (existing suite passes with the change; demonstration fails with it and passes without) before the checks were run against it on `/repo` itself (`git apply` ... `git checkout -- .`). (2) hand-written one-edit mutants from the 'Must catch' lists of DESIGN section 5 (`tools/mutants.py`, log in `MUTATION.log`).","",
"## Seeded changes (sub-agents)","","Column *when evaluated* is the outcome at the time the change came in (before any strengthening it led to; some early patches no longer applied after later `fix:` commits and have an adapted patch). Column *final harness* is the outcome of `tools/reeval.py`: the own property's check, quick tier, of the final harness against /repo HEAD (followed, if that missed, by the checks that had caught the change earlier).","",
"| id | round | files | functions | when evaluated | final harness | first violation reported |","|---|---|---|---|---|---|---|"]
for r in rows: out.append("| %s | %s | %s | %s | %s | %s | %s |"%r)
out+=["","## Hand-written mutants","","```"]
if os.path.exists('/verif/MUTATION.log'):
    seen={}
    for l in open('/verif/MUTATION.log'):
        n=l.split(':')[0]; seen[n]=l.rstrip()[:400]
    out+=list(seen.values())
out+=["```",""]
open('/verif/MUTATION.md','w').write("\n".join(out))
print(len(rows),"seeded rows")
