import json,glob,collections,sys
prop=sys.argv[1]
c=collections.Counter()
ex={}
for f in glob.glob('/verif/replays/%s-*.json'%prop):
    d=json.load(open(f))
    v=d['result']['violations'][0]
    c[v['sig']]+=1
    ex.setdefault(v['sig'],(f.split('/')[-1],v['msg'][:260]))
for k,n in c.most_common(): print(n,k,ex[k])
