#!/usr/bin/env python3
"""Regenerates /verif/MANIFEST.json from the table below (run after adding a check)."""
import json, subprocess

HOOK_COMMITS = subprocess.run(
    "git -C /repo log --format=%h --grep='^verif:' --reverse", shell=True, capture_output=True, text=True
).stdout.split()

CHECKS = {
 "C01": ("exploration", "reference-model lock-step monitor over generated sequential histories",
         "The real store is driven through thousands of generated histories over hostile key universes (shared buckets, long common prefixes, empty values, tiny file limits, both primaries, both immutable modes) and every call's result is compared at once with an in-memory map; held on the histories and configurations explored, reported with counts. Digests range from 4 to 323 bytes with multi-byte hash codes; two keys agreeing in their first 250 bytes are not generated (known finding C01-F1, own reproducer).",
         "finite sample of histories/configurations; reference map is the specification; keys satisfy the statement's precondition", "5 C01"),
 "C02": ("exploration", "reopen monitor: snapshot vs rescan recovery compared through fsck and the reference model",
         "At every Close inside generated histories (with rollovers, removals and GC cycles before) the closed directory is reopened through the snapshot path, the rescan path and with an unusable snapshot; all three must equal the model and resolve every bucket to the same entries.",
         "same configuration on reopen; GC before Close runs on flushed state", "5 C02"),
 "C03": ("fault_enumeration", "crash-point imaging at hook points + torn-write synthesis + recovery oracle",
         "One single-threaded execution yields the directory image a process crash would leave at every file-system step point (hooks sit before each mutation); torn appends are synthesised between consecutive images; every image is reopened and checked key by key against the durable-or-acknowledged set, then driven further through GC and reopen with fsck. A second family produces crash states in which a flush and a collector are both mid-way (one parked at a step point while the other runs, so images stay point-in-time), a third one bursts of >1024 frees between flushes. All step points of the executed histories are enumerated; histories are sampled.",
         "process-crash model (kernel-visible writes survive); crash points of executed single-threaded histories plus scripted flush x collector and flush x flush interleavings; equal-length in-place rewrites, renames, truncations atomic; further families: burst histories, index-GC churn histories, crash inside a legacy conversion", "5 C03"),
 "C04": ("exploration", "reference-model monitor with GC cycles interleaved, full probe after every cycle",
         "Generated histories interleave primary and index GC cycles (all thresholds, scan-free on/off, with and without a preceding flush, cycles stopped midway by a synthetic deadline and resumed) with ordinary calls; after every cycle every key is probed against the model and the history ends with reopen.",
         "cycles are driven synchronously through MultihashPrimary.GC and the verif-tagged index GC wrapper", "5 C04"),
 "C05": ("exploration", "recorded client histories (atomic logical clock) checked per key with porcupine against the reference map, under stress, noise, depth-d delays and gates; race build",
         "Real goroutines call the public API on keys concentrated in few buckets while the flusher and explicit flushes run; schedules are widened by hash-determined delays at hook points between the store's critical sections and by scripted gates; every call is recorded at the API boundary and each key's sub-history is checked for linearizability, plus error classes, reads after quiescence and fsck of the closed store. Class A (one writer per key) and class B (several) are generated separately. A quarter of the cases use SyncOnFlush(true).",
         "schedules sampled, not enumerated; porcupine timeout = inconclusive", "5 C05"),
 "C06": ("exploration", "as C05 with primary and index GC loops or background collectors and cache resizing running concurrently; race build",
         "Same history oracle (GC is invisible to the model) on the multihash primary with 40-300 byte files so that collectors mark, merge, truncate, relocate and unlink while callers run; evidence reports GC hook events inside client activity. Scripted windows G7-G11, G24, G25; a quarter of the cases use SyncOnFlush(true).",
         "one goroutine per harness-driven collector, never combined with background collectors", "5 C06"),
 "C07": ("exploration", "independent fsck reader evaluated at every quiescent point",
         "An independent parser of all on-disk formats evaluates the statement's invariant list after every Flush/Close of histories from the C01, C04 and C02 generators plus a crash slice of its own: fsck with the log-replay bucket table on crash images (torn variants included), on every image of the post-recovery continuation and on the closed store (post-concurrency states are examined inside C05/C06 with the same fsck). Further slices: index-GC churn histories (one record list per flush, cycles cut short), the comparison of the log-replay table with the live table at every flush, C06's scripted collector x caller windows (fsck verdicts only) and crash explorations of legacy conversions.",
         "formats as read from the code (DESIGN.md appendix A); invariant exactly as stated", "5 C07"),
 "C08": ("exploration", "bounded-exhaustive + random sequences at the index API with lookup and structure monitors",
         "All valid sequences up to the bound over an 8-key universe containing every shared-prefix shape, each in two flush variants, plus random longer sequences; after every operation every key is looked up and the stored prefixes are read back and checked (sorted, prefix-free, prefix of own key, other entries untouched); each sequence ends with a rescanning reopen of the index and repeated lookups. A store-level part asks the same question through the real multihash and CID primaries (one-bucket universes, multi-byte hash codes, digests up to 323 bytes) with fsck's structural clauses after every flush.",
         "exhaustive only within the stated bound; Update/Remove issued for present keys only", "5 C08"),
 "C09": ("exploration", "reference-model monitor across bit-size changes + crash-point imaging inside the translation",
         "Every ordered pair of bit sizes over {8,9,12,15,16,17,20,24} is exercised on generated histories, chains of changes are interleaved with file-size-mismatch opens that must be refused with the specific error types, and every hook point inside a translating OpenStore is imaged (torn variants included) and reopened with old and new bits: a successful open must show every key. Mismatch opens are also combined with a bit-size change; every second recovery carries an older empty old_index directory.",
         "24-bit sizes only with short histories; a refused open need not leave files untouched", "5 C09"),
 "C10": ("exploration", "independent legacy-format writer + reference-model monitor + crash-point imaging inside the upgrade",
         "Legacy stores are produced by the harness' own writer (simulated store life, pending/pre-deleted/leaked records, dangling entries, chunk limits around record sizes), upgraded by OpenStore and compared with the generator's map, fsck'd and used further; every hook point inside the upgrade is imaged and must resume to the same contents.",
         "legacy formats reconstructed from the upgrade code and fixtures", "5 C10"),
 "C11": ("exploration", "bounded-progress monitor over directory listings, StorageSize and fsck layout across GC cycles",
         "Liveness restated as bounded progress in harness-driven GC cycles: dead files must be released within 4 cycles, low-use files drained within live+4, growth bounded by relocations, and a fixed point reached after which nothing is written. Variants: every cycle time-limited, a cycle stopped while its freelist batch is applied, hand-overs of several hundred entries, left-over header temp files, and the store's own background collectors stepped one cycle at a time by gates.",
         "progress counted in cycles with a Flush between; generous bounds", "5 C11"),
 "C12": ("exploration", "gated interleavings of flushTick vs Flush + stress; oracle = state of the notice channel handed over by the registered hook",
         "Liveness restated as bounded progress in flushes: the notice a writer registered must be closed once a Flush started after the registration has returned; decided by a non-blocking receive on the channel, never by wall-clock time. Gates place a flush between decision and registration (single writer), two writers around one flush, registration during a flush's commit. Further scripts: SyncOnFlush with a write landing between a commit's index flush and its syncs, a writer after a collector resumed a left-over hand-over file, a writer after collector cycles that could not read their header; a harness Flush that does not return in 30 s is reported with the goroutine profile.",
         "flush failures not injected; gate expiry = inconclusive", "5 C12"),
 "C13": ("exploration", "multiset-conservation monitor over freelist append stream, hand-over batches and deleted bits",
         "With a flush after every mutating call the multiset of locations that stopped being current (from fsck's decoded layout) must equal the multiset of freelist entries appended (file + batches captured at the hand-over hook); consumed batches must be dead afterwards; no location marked twice or while current; every entry ever handed over must be dead once no hand-over file exists. Two further families: a concurrent stress of the freelist package (producers / Flush loop / ToGC consumer: handed over + left in file == produced) and a crash slice (no location that a restarted store would treat as current may be on the freelist or marked deleted, on images taken at every hook point).",
         "sequential histories for the interval oracle; store-level concurrent families (scripted writer x relocation windows G18-G20, C06-style stress) decide on the closed store: no location twice in captured batches + freelist + hand-over file, none of them current, every unmarked non-current record among them; locations never reused in the explored range", "5 C13"),
 "C14": ("exploration", "bounded-exhaustive + random + concurrent runs at the filecache API with a shadow table of lent handles",
         "All operation sequences up to the bound over three names and capacities incl. 0 are executed on real files; after every step the shadow table checks that lent handles are open and refer to their file, that Len/Cap/descriptor accounting identities hold and legitimate Closes succeed; a concurrent stress part (race build) checks that a held handle never fails with ErrClosed, and a store-level part runs lookups, whole-store iterations and cache resizing through a 1-2 entry cache on a flushed store (a closed-file error there means a user of the cache gave a handle back while another still held it).",
         "eviction order not modelled; exhaustive within the stated bound only; names spelled three ways; further families: scripted window G21 (reader holds a cached handle while another read of that file fails), slow-open overlaps (Open blocked in open(2) on a FIFO vs resize/Clear/Remove), yielding eviction callback in the concurrent runs", "5 C14"),
 "C16": ("exploration", "Go race detector (happens-before) over dense concurrent compositions of the public API, flusher, size queries, cache resizing and both collectors",
         "Every execution of the race build is observed by the race detector; reports with a go-storethehash frame are verdicts, deduplicated by the pair of first store frames; runtime fatal errors end the worker and are attributed to the case.",
         "only executed paths and observed happens-before relations; a quarter of the cases with SyncOnFlush, one in sixteen drives the failing-flush error path under rate-limited writers", "5 C16"),
 "C15": ("exploration", "reference-model monitor at the blockstore interface incl. cancelled contexts, aliases and hash-on-read",
         "Generated blockstore histories over blocks of all sizes incl. empty, four hash functions, CIDv0/v1 x three codecs, mismatching (CID, bytes) pairs, live and cancelled contexts on every method and HashOnRead toggles are compared call by call with a map keyed by multihash and the expected error classes.",
         "digests >= 4 bytes, none a proper prefix of another; first write wins per multihash; a third of the cases run serviced (1 ms flusher, settle steps, restarts), half of those with background collectors, a mass-delete epilogue and restarts before the final re-read with hash-on-read", "5 C15"),
 "C17": ("exploration", "resource monitors (goroutine profiles, /proc/self/fd, directory hashes, hook-event silence) around Close issued at random moments, with collectors/flusher parked mid-way by gates, after failing opens and over 200 open/close cycles; race build",
         "After Close returned: no store hook event fires any more, no descriptor into the store directories is open, no store goroutine stays blocked over three profiles, the directory hash is stable, and the reopened store equals the model before and after GC; failed opens leave no descriptor or goroutine; nothing accumulates over cycles. A Close that never returns is reported by the watchdog with the goroutine dump.",
         "clients have stopped when Close is issued; runnable goroutines are resampled, only blocked ones count; further families: Close that has to write while the write cannot succeed, scripted descriptor windows G22/G23 and all of C06's collector x caller windows under the descriptor clause (Go collector off), legacy-format failing opens", "5 C17"),
}

NOT_YET = {
}

def main():
    checks = []
    for pid in sorted(CHECKS):
        level, tech, text, note, ref = CHECKS[pid]
        checks.append({
            "property_id": pid,
            "quick_cmd": f"./check {pid} quick",
            "thorough_cmd": f"./check {pid} thorough",
            "evidence_file": f"/verif/evidence/{pid}.json",
            "replay_cmd_template": f"./check {pid} quick --replay {{path}}",
            "engine": "vcheck",
            "level_claimed": {"category": level, "text": text, "design_ref": "DESIGN.md section " + ref},
            "level_note": note,
            "technique": tech,
        })
    m = {
        "version": 1,
        "setup_cmd": "./setup.sh",
        "hooks": {
            "guard": "verif",
            "enable": "go build -tags verif (store/vhook named points + verif_export.go accessors); ./check does this on every run",
            "baseline_off_cmd": "cd /repo && GOFLAGS=-mod=mod GOPROXY=off go test -vet=off -count=1 -timeout 25m ./...",
            "source_commits": HOOK_COMMITS,
            "add_only": True,
        },
        "engines": [{"name": "vcheck", "path": "/verif/harness", "serves_properties": sorted(CHECKS), "kind_free_text": "Go harness: coordinator + worker child processes running the real store under hook-driven monitors (reference model, fsck, crash imaging, porcupine, race detector)"}],
        "checks": checks,
        "not_applicable": [{"property_id": k, "reason": v} for k, v in sorted(NOT_YET.items()) if k not in CHECKS],
        "notes": "Runtime monitoring of go-storethehash; see DESIGN.md. Known findings: KNOWN_FINDINGS.json. env: VERIF_SEED, VERIF_TIER, VERIF_JOBS, VERIF_SCRATCH.",
    }
    json.dump(m, open("/verif/MANIFEST.json", "w"), indent=1)
    print("checks:", len(checks), "not_applicable:", len(m["not_applicable"]))

main()
