#!/bin/sh
# MANIFEST.setup_cmd: build both harness binaries once from files on disk.
set -e
cd "$(dirname "$0")"
exec ./check --build-only
